import Votca.Model.C10
import Votca.Model.C10R
/-! line-protocol handler for C10: replays the interleaving of the real ProgObserver processes on the model and judges the
clauses (assigned once, nothing lost, results kept, lock exclusive, one complete copy at the crash point) on the trace itself -/
namespace Driver.C10
open Votca Votca.C10

def bad (m : String) : Verdict := { agree := false, propOk := true, msg := "bad-line " ++ m, tag := "bad" }

structure Ev where
  p : Nat
  what : String

def parseEv (t : String) : Option Ev :=
  match t.splitOn ":" with
  | a :: rest => a.toNat?.map fun n => ⟨n, ":".intercalate rest⟩
  | _ => none

structure RS where
  s : S
  inits : Nat → Nat       -- hook events of the initial lock/backup/release cycle still to be skipped (0 = done)
  err : Option String

def stepP (c J : Nat) (r : RS) (p : Nat) (what : String) : RS :=
  match r.err with
  | some _ => r
  | none => match step Mode.exclusive c J r.s p with
    | some s' => { r with s := s' }
    | none => { r with err := some s!"model: process {p} cannot take the step for '{what}' (blocked: lock held by {r.s.lock})" }

/-- silent steps that bring process `p` to the point where it requests the lock (cache must be empty) -/
def toWantLock (c J : Nat) (r : RS) (p : Nat) (what : String) : RS :=
  let r1 := if (r.s.proc p).pc == PC.unlocked then stepP c J r p what else r
  match r1.err with
  | some _ => r1
  | none =>
    if (r1.s.proc p).pc == PC.idle then
      (if (r1.s.proc p).cache.isEmpty then stepP c J r1 p what
       else { r1 with err := some s!"model: process {p} still has cached jobs {(r1.s.proc p).cache} but the trace shows a synchronisation" })
    else r1

def expect (r : RS) (p : Nat) (pc : PC) (what : String) : RS :=
  match r.err with
  | some _ => r
  | none => if (r.s.proc p).pc == pc then r else { r with err := some s!"model: process {p} is at {repr (r.s.proc p).pc} when the trace shows '{what}'" }

def replay (c J : Nat) (evs : List Ev) : RS :=
  evs.foldl (fun r ev =>
    let p := ev.p
    let w := s!"{p}:{ev.what}"
    if ev.what == "KILLED" then { r with s := { r.s with lock := r.s.lock.erase p } }   -- the kernel drops the lock of a dead process
    else if ev.what.startsWith "exit" || ev.what.startsWith "exc" || ev.what == "fin" then r
    else if ev.what.startsWith "h20" || ev.what.startsWith "h21" || ev.what == "h10" then r
    else if r.inits p > 0 then
      -- InitFromProgFile: lock, back-up, release — not part of the model's cycle
      if ev.what == "h16" then { r with inits := upd r.inits p 0 } else r
    else if ev.what == "h11" then stepP c J (expect (toWantLock c J r p w) p PC.wantLock w) p w
    else if ev.what == "h12" then stepP c J (expect r p PC.locked w) p w
    else if ev.what == "h13" then stepP c J (expect r p PC.merged w) p w
    else if ev.what == "h14" then stepP c J (expect r p PC.backedUp w) p w
    else if ev.what == "h15" then stepP c J (expect r p PC.assignedSt w) p w
    else if ev.what == "h16" then stepP c J (expect r p PC.written w) p w
    else if ev.what.startsWith "x" then
      let j := (ev.what.drop 1).toString.toNat?.getD 0
      let r1 := if (r.s.proc p).pc == PC.unlocked then stepP c J r p w else r
      let r2 := match r1.err with
        | some _ => r1
        | none => if (r1.s.proc p).pc == PC.idle && (r1.s.proc p).cache.head? == some j then r1
                  else { r1 with err := some s!"model: process {p} (cache {(r1.s.proc p).cache}) does not hand out job {j}" }
      stepP c J (stepP c J r2 p w) p w     -- idle → exec j → idle (ReportJobDone)
    else r) { s := init, inits := fun _ => 1, err := none }

structure FinalJob where
  id : Nat
  status : String
  by_ : String

def parseFinal (t : String) : Option FinalJob :=
  match t.splitOn ":" with
  | [a, s, b] => a.toNat?.map fun n => ⟨n, s, b⟩
  | _ => none

/-- trace fact the models take for granted: a process writes the shared files (events h20 / h21 of `WRITE_JOBS`) only between taking the
    lock (h11) and releasing it (h16).  A write outside is a step the model does not have: reported as a divergence. -/
def writesUnderLock (evs : List Ev) : Bool :=
  (evs.foldl (fun (st : List Nat × Bool) (e : Ev) =>
      if e.what == "h11" then (e.p :: st.1, st.2)
      else if e.what == "h16" then (st.1.erase e.p, st.2)
      else if e.what.startsWith "h20" || e.what.startsWith "h21" then (st.1, st.2 && st.1.contains e.p)
      else st) ([], true)).2

def handleRun (args : List String) : Verdict :=
  match args with
  | ps :: js :: cs :: _mx :: cp :: _ca :: "|" :: rest =>
    match ps.toNat?, js.toNat?, cs.toNat?, cp.toInt? with
    | some P, some J, some c, some crashProc =>
      let evToks := rest.takeWhile (· != "|")
      let r1 := (rest.dropWhile (· != "|")).drop 1
      let crashInfo := r1.headD "-"
      let r2 := (r1.dropWhile (· != "|")).drop 1
      let evs := evToks.filterMap parseEv
      let stuck := evToks.contains "STUCK"
      let excs := evs.filter (·.what.startsWith "exc")
      let killed := evs.filter (·.what == "KILLED") |>.map (·.p)
      let execs : List (Nat × Nat) := evs.filterMap fun e => if e.what.startsWith "x" && !e.what.startsWith "xc" then (e.what.drop 1).toString.toNat?.map (fun j => (e.p, j)) else none
      -- model replay
      let r := replay c J evs
      let modelExec := r.s.execLog
      let tornRun := (crashInfo.splitOn "file-torn").length > 1
      let wlock := writesUnderLock evs
      let agree := wlock && (tornRun || (r.err.isNone && modelExec == execs))
      -- clauses on the trace
      let jobsRun := execs.map (·.2)
      let onceOk := jobsRun.eraseDups.length == jobsRun.length
      let lockOk := (evs.foldl (fun (st : Option Nat × Bool) e =>
          if e.what == "h11" then (some e.p, st.2 && st.1.isNone)
          else if e.what == "h16" || e.what == "KILLED" || e.what.startsWith "exc" || e.what.startsWith "exit" then ((if st.1 == some e.p then none else st.1), st.2) else st) (none, true)).2
      let finalUnparseable := r2.headD "" == "UNPARSEABLE"
      let finals := (r2.drop 1).filterMap parseFinal
      let listOk := !finalUnparseable && finals.map (·.id) == List.range J
      let noCrash := killed.isEmpty
      let resultOk := finals.all fun f =>
        match execs.find? (fun (_, j) => j == f.id) with
        | some (p, _) => killed.contains p || (f.status == "COMPLETE" && f.by_ == toString p)
        | none => if noCrash then false else (f.status == "AVAILABLE" || f.status == "ASSIGNED")
      let allDone := !noCrash || jobsRun.length == J
      let crashOk := noCrash || crashInfo == "-" || (crashInfo.splitOn "file-ok").length > 1 || (crashInfo.splitOn "backup-ok").length > 1
      -- a crash while the job file itself is being written leaves it torn (the back-up is complete): survivors that load it fail with a
      -- parse error and the final file may stay torn; nothing else excuses an exception or an unparseable file
      let fileTorn := (crashInfo.splitOn "file-torn").length > 1
      let excOk := excs.isEmpty || (fileTorn && crashOk)
      let listOk := listOk || (fileTorn && crashOk)
      let resultOk := resultOk || (fileTorn && crashOk)
      let ok := !stuck && excOk && onceOk && lockOk && listOk && resultOk && allDone && crashOk
      { agree := agree, propOk := ok,
        msg := if ok then (if !wlock then "C10-WRITE-OUTSIDE-LOCK a process wrote the job file or its back-up while not holding the lock (no such step in the model)" else r.err.getD s!"model executions {modelExec} differ from the trace {execs}")
               else s!"stuck={stuck} exceptions={excs.length} assignedOnce={onceOk} lockExclusive={lockOk} fileListsEveryJobOnce={listOk} resultsKept={resultOk} noneLost={allDone} oneCompleteAtCrash={crashOk} ({crashInfo}) executed={execs}",
        tag := s!"run:P{P}:{if crashProc ≥ 0 && !noCrash then "crash:" ++ ((crashInfo.splitOn ":").headD "") else "nocrash"}:cache{c}:{if J < P then "fewer-jobs-than-procs" else "jobs"}" }
    | _, _, _, _ => bad "run header"
  | _ => bad "run arity"

/-! ## restart scenarios: job file with a history, restart patterns, maxjobs (model `Votca.C10R`) -/
namespace R
open Votca.C10R

structure RS where
  s : C10R.S
  inits : Nat → Nat
  err : Option String

def cfgOf (cache maxjobs pat : Nat) : Cfg :=
  { cache := cache, maxjobs := maxjobs,
    hosts := if pat == 1 then [100] else if pat == 3 then [101] else if pat == 4 then [100, 101] else [],
    stats := if pat == 2 || pat == 3 then [C10R.Status.failed] else [] }

def histOf (k : Nat) : C10R.Job :=
  match k with
  | 1 => ⟨.complete, some 100, some 100, none⟩
  | 2 => ⟨.complete, some 101, some 101, none⟩
  | 3 => ⟨.failed, some 100, none, some 100⟩
  | 4 => ⟨.assigned, some 101, none, none⟩
  | _ => ⟨.avail, none, none, none⟩

def failsRule (on : Bool) (p j : Nat) : Bool := on && (p + j) % 4 == 0

def stepP (cfg : Nat → Cfg) (fr : Nat → Nat → Bool) (J : Nat) (r : RS) (p : Nat) (what : String) : RS :=
  match r.err with
  | some _ => r
  | none => match C10R.step cfg fr J r.s p with
    | some s' => { r with s := s' }
    | none => { r with err := some s!"model: process {p} cannot take the step for '{what}' (lock held by {r.s.lock})" }

def toWantLock (cfg : Nat → Cfg) (fr : Nat → Nat → Bool) (J : Nat) (r : RS) (p : Nat) (what : String) : RS :=
  let r1 := if (r.s.proc p).pc == C10R.PC.unlocked then stepP cfg fr J r p what else r
  match r1.err with
  | some _ => r1
  | none =>
    if (r1.s.proc p).pc == C10R.PC.idle then
      (if (r1.s.proc p).cache.isEmpty then stepP cfg fr J r1 p what
       else { r1 with err := some s!"model: process {p} still has cached jobs {(r1.s.proc p).cache} but the trace shows a synchronisation" })
    else r1

def expect (r : RS) (p : Nat) (pc : C10R.PC) (what : String) : RS :=
  match r.err with
  | some _ => r
  | none => if (r.s.proc p).pc == pc then r else { r with err := some s!"model: process {p} is at {repr (r.s.proc p).pc} when the trace shows '{what}'" }

def replay (cfg : Nat → Cfg) (fr : Nat → Nat → Bool) (J : Nat) (hist : Nat → C10R.Job) (evs : List Ev) : RS :=
  evs.foldl (fun r ev =>
    let p := ev.p
    let w := s!"{p}:{ev.what}"
    if ev.what.startsWith "exit" || ev.what.startsWith "exc" || ev.what == "fin" then r
    else if ev.what.startsWith "h20" || ev.what.startsWith "h21" || ev.what == "h10" then r
    else if r.inits p > 0 then
      -- InitFromProgFile: lock, LOAD_JOBS, back-up, release: the process starts from what the job file holds at that moment
      if ev.what == "h16" then { r with inits := C10R.upd r.inits p 0, s := C10R.setP r.s p { r.s.proc p with mem := r.s.disk } } else r
    else if ev.what == "h11" then stepP cfg fr J (expect (toWantLock cfg fr J r p w) p .wantLock w) p w
    else if ev.what == "h12" then stepP cfg fr J (expect r p .locked w) p w
    else if ev.what == "h13" then stepP cfg fr J (expect r p .merged w) p w
    else if ev.what == "h14" then stepP cfg fr J (expect r p .backedUp w) p w
    else if ev.what == "h15" then stepP cfg fr J (expect r p .assignedSt w) p w
    else if ev.what == "h16" then stepP cfg fr J (expect r p .written w) p w
    else if ev.what.startsWith "x" then
      let j := (ev.what.drop 1).toString.toNat?.getD 0
      let r1 := if (r.s.proc p).pc == C10R.PC.unlocked then stepP cfg fr J r p w else r
      let r2 := match r1.err with
        | some _ => r1
        | none => if (r1.s.proc p).pc == C10R.PC.idle && (r1.s.proc p).cache.head? == some j then r1
                  else { r1 with err := some s!"model: process {p} (cache {(r1.s.proc p).cache}) does not hand out job {j}" }
      stepP cfg fr J (stepP cfg fr J r2 p w) p w
    else r) { s := C10R.init hist, inits := fun _ => 1, err := none }

def statusName : C10R.Status → String
  | .avail => "AVAILABLE" | .assigned => "ASSIGNED" | .complete => "COMPLETE" | .failed => "FAILED"

def hostTok (h : Option Nat) : String := match h with | none => "-" | some 100 => "old:1" | some 101 => "old:2" | some k => s!"p{k}"
def outTok (h : Option Nat) : String := match h with | none => "-" | some 100 => "old1" | some 101 => "old2" | some k => toString k
def errTok (h : Option Nat) : String := match h with | none => "-" | some 100 => "eold1" | some 101 => "eold2" | some k => s!"f{k}"

def recTok (j : Nat) (jb : C10R.Job) : String := s!"{j};{statusName jb.status};{hostTok jb.host};{outTok jb.out};{errTok jb.err}"

def takeTriples : Nat → List String → Option (List (Nat × Nat × Nat) × List String)
  | 0, l => some ([], l)
  | k + 1, a :: b :: c :: rest => do
    let x ← a.toNat?; let y ← b.toNat?; let z ← c.toNat?
    let (m, r) ← takeTriples k rest
    pure ((x, y, z) :: m, r)
  | _, _ => none

def handleRRun (args : List String) : Verdict :=
  (do
    match args with
    | ps :: js :: fr :: "|" :: rest =>
      let P ← ps.toNat?; let J ← js.toNat?
      let (cfgs, r1) ← takeTriples P rest
      if r1.head? != some "|" then none else
      let kinds := (r1.tail.takeWhile (· != "|")).filterMap String.toNat?
      if kinds.length != J then none else
      let r2 := (r1.tail.dropWhile (· != "|")).drop 1
      let evToks := r2.takeWhile (· != "|")
      let r3 := (r2.dropWhile (· != "|")).drop 1
      let evs : List Ev := evToks.filterMap parseEv
      let cfg : Nat → Cfg := fun p => match cfgs[p]? with | some (c, m, pt) => cfgOf c m pt | none => cfgOf 1 1000 0
      let hist : Nat → C10R.Job := fun j => histOf (kinds.getD j 0)
      let frule := failsRule (fr == "1")
      let stuck := evToks.contains "STUCK"
      let excs : List Ev := evs.filter fun (e : Ev) => e.what.startsWith "exc"
      let execs : List (Nat × Nat) := evs.filterMap fun (e : Ev) => if e.what.startsWith "x" then (e.what.drop 1).toString.toNat?.map (fun j => (e.p, j)) else none
      let r := replay cfg frule J hist evs
      let finals := r3.drop 1
      let modelFinal := (List.range J).map fun j => recTok j (r.s.disk j)
      let wlock := writesUnderLock evs
      let agree := wlock && r.err.isNone && r.s.execLog == execs && modelFinal == finals
      -- the clauses, on the trace and the final file only
      -- (1) results kept: an executed job carries exactly what its last executor reported; an untouched job its historical record
      let specFinal := (List.range J).map fun j =>
        match (execs.filter fun (q : Nat × Nat) => q.2 == j).getLast? with
        | some (p, _) => recTok j (C10R.report frule p j ⟨.assigned, some p, none, none⟩)
        | none => recTok j (hist j)
      let resultOk := specFinal == finals
      -- (2) a job is (re)started only when AVAILABLE or named by the executor's restart pattern (history, or a failure of this run)
      let restartOk := execs.zipIdx.all fun ((p, j), i) =>
        let earlier := (execs.take i).filter fun (q : Nat × Nat) => q.2 == j
        match earlier.getLast? with
        | none => C10R.startable (cfg p) (hist j)
        | some (q, _) => frule q j && (cfg p).stats.contains C10R.Status.failed
      -- (3) maxjobs
      let maxOk := (List.range P).all fun p => (execs.filter fun (q : Nat × Nat) => q.1 == p).length ≤ (cfg p).maxjobs
      -- (4) nothing lost: with a process without job limit every AVAILABLE job runs
      let unlimited := (List.range P).any fun p => (cfg p).maxjobs ≥ 1000
      let allDone := !unlimited || (List.range J).all fun j => kinds.getD j 0 != 0 || execs.any fun (q : Nat × Nat) => q.2 == j
      let ok := !stuck && excs.isEmpty && resultOk && restartOk && maxOk && allDone
      let msg : String := if ok then (if !wlock then "C10-WRITE-OUTSIDE-LOCK a process wrote the job file or its back-up while not holding the lock (no such step in the model)" else r.err.getD s!"model final {modelFinal} / executions {r.s.execLog} differ from the run: {finals} / {execs}")
                    else s!"C10-RESTART stuck={stuck} exceptions={excs.length} resultsKept={resultOk} restartExactly={restartOk} maxjobs={maxOk} noneLost={allDone} expected={specFinal} file={finals} executed={execs}"
      let tag : String := s!"rrun:P{P}:{if fr == "1" then "failures" else "nofail"}:{if cfgs.any (fun c => c.2.2 != 0) then "pattern" else "nopattern"}:{if cfgs.any (fun c => c.2.1 < 1000) then "maxjobs" else "nolimit"}"
      some ({ agree := agree, propOk := ok, msg := msg, tag := tag } : Verdict)
    | _ => none).getD (bad "rrun fields")

end R

def handle (args : List String) : Verdict :=
  match args with
  | "run" :: r => handleRun r
  | "rrun" :: r => R.handleRRun r
  | _ => bad "unknown op"

end Driver.C10
