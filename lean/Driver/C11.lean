import Votca.Model.C11
import Votca.Gen.XmlEscape
/-! line-protocol handlers for C11 (core only) -/
namespace Driver.C11
open Votca Votca.C11 Votca.C11.PTree Votca.C18

def bad (m : String) : Verdict := { agree := false, propOk := true, msg := "bad-line " ++ m, tag := "bad" }

def hstr (h : String) : Option String := (unhex h).map String.ofList

/-- parse `T name value nattr (k v)* nchild children…` -/
partial def parseTree (l : List String) : Option (PTree × List String) :=
  match l with
  | "T" :: hn :: hv :: na :: rest => do
    let n ← hstr hn
    let v ← hstr hv
    let k ← na.toNat?
    let rec attrs : Nat → List String → Option (List (String × String) × List String)
      | 0, r => some ([], r)
      | j + 1, a :: b :: r => do
        let x ← hstr a
        let y ← hstr b
        let (t, r') ← attrs j r
        pure ((x, y) :: t, r')
      | _, _ => none
    let (ats, r1) ← attrs k rest
    match r1 with
    | nc :: r2 =>
      let c ← nc.toNat?
      let rec kids : Nat → List String → Option (List PTree × List String)
        | 0, r => some ([], r)
        | j + 1, r => do
          let (t, r') ← parseTree r
          let (ts, r'') ← kids j r'
          pure (t :: ts, r'')
      let (cs, r3) ← kids c r2
      pure (PTree.node n v ats cs, r3)
    | _ => none
  | _ => none

partial def treeEq (a b : PTree) : Bool :=
  a.name == b.name && a.value == b.value && a.attrs == b.attrs && a.children.length == b.children.length &&
  (a.children.zip b.children).all (fun (x, y) => treeEq x y)

def trimS (s : String) : String := String.ofList (trimWs s.toList)

/-- names, order, attributes and trimmed values -/
partial def treeEqTrim (a b : PTree) : Bool :=
  a.name == b.name && trimS a.value == trimS b.value && a.attrs == b.attrs && a.children.length == b.children.length &&
  (a.children.zip b.children).all (fun (x, y) => treeEqTrim x y)

partial def firstDiff (a b : PTree) (path : String) : String :=
  if a.name != b.name then s!"{path}: name {a.name} vs {b.name}"
  else if a.value != b.value then s!"{path}.{a.name}: value '{a.value}' vs '{b.value}'"
  else if a.attrs != b.attrs then s!"{path}.{a.name}: attributes {a.attrs} vs {b.attrs}"
  else if a.children.length != b.children.length then s!"{path}.{a.name}: {a.children.length} vs {b.children.length} children ({a.children.map (·.name)} vs {b.children.map (·.name)})"
  else match (a.children.zip b.children).find? (fun (x, y) => !treeEq x y) with
    | some (x, y) => firstDiff x y (path ++ "." ++ a.name)
    | none => "equal"

/-! independent clause checks on the implementation's result -/

/-- every user leaf (outside list / unchecked sections, last duplicate wins) carries the user's value in the result -/
partial def userLeavesKept (u r d : PTree) : Bool :=
  -- a DECLARED unchecked section carries the user's content as it is
  if d.hasAttr "unchecked" then u.children.all fun uc => r.children.any fun rc => rc.name == uc.name && rc.value == uc.value else
  if d.hasAttr "list" then true else
  u.children.all fun uc =>
    match getLast u.children uc.name, getLast r.children uc.name, getLast d.children uc.name with
    | some ul, some rc, some dc => if ul.children.isEmpty && dc.children.isEmpty then rc.value == ul.value else userLeavesKept ul rc dc
    | _, _, _ => true

partial def anyNode (p : PTree → Bool) (t : PTree) : Bool := p t || t.children.any (anyNode p)

/-- declared leaves the user left out carry their default; optional ones are gone -/
partial def defaultsInjected (r : PTree) : Bool :=
  r.children.all fun p =>
    if !p.children.isEmpty then defaultsInjected p
    else match p.attr "default" with
      | some v => p.hasAttr "injected" || reserved.contains v || p.value == v
      | none => true

/-- does the user tree name something the description does not declare (outside unchecked)? -/
partial def hasUnknown (u d : PTree) : Bool :=
  if d.hasAttr "unchecked" then false else
  u.children.any fun c => match getLast d.children c.name with
    | some dc => hasUnknown c dc
    | none => true

def errKind (e : String) : String :=
  if e.startsWith "Votca has no option" then "unknown" else if e.startsWith "Please specify" then "required"
  else if e.startsWith "The input value" then "value" else if e.startsWith "Developers" then "listtag" else "other"

/-- the option an error names (model message suffix) must occur in the implementation's message -/
def namesOption (modelMsg implMsg : String) : Bool :=
  let nm := (modelMsg.splitOn ":").getLast!.replace "\"" ""
  let nm2 := (nm.splitOn "for ").getLast!
  nm2.isEmpty || (implMsg.splitOn nm2).length > 1

def handleProcess (args : List String) : Verdict :=
  match args with
  | hc :: rest =>
    (do
      let cname ← hstr hc
      let (dflt, r1) ← parseTree rest
      if r1.head? != some "|" then none else
      let (u, r2) ← parseTree r1.tail
      if r2.head? != some "|" then none else
      let m := processUserInput u dflt
      match r2.tail with
      | "OK" :: r3 =>
        let (res, r4) ← parseTree r3
        if !r4.isEmpty then none else
        let agree := match m with | .ok t => treeEq t res | .error _ => false
        let dOpt := (getLast dflt.children "options").getD dflt
        let uOpt := (getLast u.children "options").getD u
        let rOpt := (getLast res.children "options").getD res
        let c1 := userLeavesKept uOpt rOpt dOpt
        let c2 := !anyNode isOptionalLeft res
        let c3 := defaultsInjected res
        let c4 := !hasUnknown u dflt
        let c5 := !anyNode isRequiredLeft res
        let c6 := match checkOptions (heightP res + 1) res with | .ok () => true | .error _ => false
        let ok := c1 && c2 && c3 && c4 && c5 && c6
        pure ({ agree := agree, propOk := ok,
                msg := if ok then (match m with | .ok t => "first difference " ++ firstDiff t res "" | .error e => "model rejects: " ++ e)
                       else s!"userLeavesKept={c1} optionalAbsent={c2} defaults={c3} unknownRejected={c4} requiredRejected={c5} valuesValid={c6}",
                tag := s!"process:ok:{cname}" } : Verdict)
      | "ERR" :: kind :: hm :: [] =>
        let im ← hstr hm
        let agree := match m with | .error e => errKind e == kind && namesOption e im | .ok _ => false
        -- an error is justified only by an undeclared option, a missing REQUIRED one, an invalid value or a malformed list section
        let justified := match kind with
          | "unknown" => hasUnknown u dflt
          | "required" | "value" | "listtag" => (match m with | .error e => errKind e == kind | .ok _ => false)
          | _ => false
        pure ({ agree := agree, propOk := justified,
                msg := (match m with | .ok _ => "model accepts" | .error e => "model: " ++ e) ++ " / impl: " ++ im.take 120,
                tag := s!"process:err:{kind}" } : Verdict)
      | _ => none).getD (bad "process payload")
  | _ => bad "process arity"

def handleXml (args : List String) : Verdict :=
  match args with
  | mflag :: "F" :: hfile :: rest =>
    (do
      let (t, r1) ← parseTree rest
      if r1.head? != some "|" then none else
      let written ← hstr hfile
      -- the writer model (PrintNodeXML + the GENERATED escape tables) must produce the very characters the code wrote
      let modelText := String.ofList (Votca.C11X.printXML Votca.Gen.XmlEscape.textTable Votca.Gen.XmlEscape.attrTable [] t)
      if modelText != written then
        pure ({ agree := false, propOk := true, msg := "writer model differs from the written text: model " ++ (modelText.replace "\n" "\\n").take 160 ++ " / code " ++ (written.replace "\n" "\\n").take 160,
                tag := "xml:writer-text" } : Verdict) else
      match r1.tail with
      | "OK" :: n :: r2 =>
        if n != "1" then pure ({ agree := true, propOk := false, msg := s!"{n} top-level elements after reload", tag := "xml:reloaded-differently" } : Verdict) else
        let (b, r3) ← parseTree r2
        if !r3.isEmpty then none else
        let ok := treeEqTrim t b
        pure ({ propOk := ok, msg := if ok then "" else "reloaded tree differs: " ++ firstDiff t b "",
                tag := if mflag == "1" then "xml:metachars" else "xml:plain" } : Verdict)
      | "ERR" :: _ :: hm :: [] =>
        let im ← hstr hm
        pure ({ propOk := false, msg := "own XML output does not load: " ++ (im.replace "\n" " ").take 100, tag := if mflag == "1" then "xml:metachars" else "xml:plain" } : Verdict)
      | _ => none).getD (bad "xml payload")
  | _ => bad "xml arity"

def handleLit (args : List String) : Verdict :=
  match args with
  | [hs, b, i, f] =>
    match unhex hs with
    | none => bad "lit hex"
    | some s =>
      let v := trimWs s
      let mb := match asBool v with | some true => "1" | some false => "0" | none => "E"
      let mi := match lexCast v with | some k => toString k | none => "E"
      let mf := if !isFloatLit v then "E" else match isInfNan v with
        | some (true, _) => "isnan"
        | _ => if floatNonneg v then "ge0" else "lt0"
      let ok := mb == b && mi == i && mf == f
      { agree := ok, propOk := ok, msg := s!"documented: bool={mb} int={mi} float={mf}; got bool={b} int={i} float={f}", tag := "lit" }
  | _ => bad "lit arity"

/-- link resolution: the model splices the raw sub-package trees into the raw calculator tree; the defaults of the real code must be that tree
    ("every other declared leaf with its default": the leaves declared in linked sub-packages are declared leaves) -/
def handleLinks (args : List String) : Verdict :=
  match args with
  | hc :: rest =>
    (do
      let cname ← hstr hc
      let (raw, r1) ← parseTree rest
      match r1 with
      | "|" :: np :: r2 =>
        let n ← np.toNat?
        let rec pk : Nat → List String → Option (List (String × PTree) × List String)
          | 0, r => some ([], r)
          | j + 1, hf :: r => do
            let f ← hstr hf
            let (t, r') ← parseTree r
            let (ts, r'') ← pk j r'
            pure ((f, t) :: ts, r'')
          | _, _ => none
        let (pkgs, r3) ← pk n r2
        let nlinks := if anyNode (fun t => t.hasAttr "link") raw then "with-links" else "no-links"
        let multi := if anyNode (fun t => match t.attr "link" with | some l => (linkTokens l).length > 1 | none => false) raw then ":multi-file" else ""
        let tag : String := s!"links:{nlinks}{multi}"
        match r3 with
        | "|" :: "OK" :: r4 =>
          let (res, r5) ← parseTree r4
          if !r5.isEmpty then none else
          match resolveLinks pkgs 60 raw with
          | some m =>
            let ok := treeEq m res
            let msg : String := s!"C11-LINKS {cname}: the defaults of the code differ from the calculator file with its sub-packages spliced in: {firstDiff m res ""}"
            some ({ agree := ok, propOk := ok, msg := if ok then "" else msg, tag := tag } : Verdict)
          | none => some ({ agree := false, propOk := true, msg := s!"model cannot resolve the links of {cname} (missing package), the code can", tag := tag } : Verdict)
        | "|" :: "ERR" :: _ =>
          match resolveLinks pkgs 60 raw with
          | some _ => some ({ agree := false, propOk := false, msg := s!"C11-LINKS {cname}: the code refuses a description whose links resolve", tag := tag } : Verdict)
          | none => some ({ agree := true, propOk := true, msg := "", tag := tag } : Verdict)
        | _ => none
      | _ => none).getD (bad "links fields")
  | _ => bad "links arity"

def handle (args : List String) : Verdict :=
  match args with
  | "links" :: rest => handleLinks rest
  | "process" :: r => handleProcess r
  | "xml" :: r => handleXml r
  | "lit" :: r => handleLit r
  | _ => bad "unknown op"

end Driver.C11
