import Votca.Model.C14
/-! line-protocol handlers for C14 (core only) -/
namespace Driver.C14
open Votca Votca.C14

def bad (m : String) : Verdict := { agree := false, propOk := true, msg := "bad-line " ++ m, tag := "bad" }

def takeRats : Nat → List String → Option (List Rat × List String)
  | 0, l => some ([], l)
  | k + 1, m :: e :: rest => do
    let x ← parseRat2 m e
    let (xs, r) ← takeRats k rest
    pure (x :: xs, r)
  | _, _ => none

def takeNodes : Nat → List String → Option (List (NodeDesc × Rat) × List String)
  | 0, l => some ([], l)
  | k + 1, kind :: a :: b :: m :: e :: rest => do
    let x ← a.toNat?
    let y ← b.toNat?
    let p ← parseRat2 m e
    let d ← (if kind == "L" then some (NodeDesc.last x y) else if kind == "I" then some (NodeDesc.inner x y) else none)
    let (ns, r) ← takeNodes k rest
    pure ((d, p) :: ns, r)
  | _, _ => none

def takeQueries : Nat → List String → Option (List (Rat × Int) × List String)
  | 0, l => some ([], l)
  | k + 1, m :: e :: ev :: rest => do
    let p ← parseRat2 m e
    let i ← ev.toInt?
    let (qs, r) ← takeQueries k rest
    pure ((p, i) :: qs, r)
  | _, _ => none

def close (a b tol : Rat) : Bool := absRat (a - b) ≤ tol * (1 + absRat a + absRat b)

def insertSorted (x : Rat) : List Rat → List Rat
  | [] => [x]
  | y :: ys => if x < y then x :: y :: ys else if x == y then y :: ys else y :: insertSorted x ys

/-- (a,b] intervals between consecutive points -/
def intervals : List Rat → List (Rat × Rat)
  | a :: b :: rest => (a, b) :: intervals (b :: rest)
  | _ => []

def handleTree (args : List String) : Verdict :=
  match args with
  | ex :: n :: rest =>
    match n.toNat? with
    | none => bad "tree n"
    | some nEv =>
    match takeRats nEv rest with
    | none => bad "tree rates"
    | some (rates, r1) =>
    match r1 with
    | k :: r2 =>
      match k.toNat? with
      | none => bad "tree k"
      | some nNodes =>
      match takeNodes nNodes r2 with
      | none => bad "tree nodes"
      | some (nodes, r3) =>
      match r3 with
      | q :: r4 =>
        match q.toNat? with
        | none => bad "tree q"
        | some nQ =>
        match takeQueries nQ r4 with
        | some (qs, [em, ee]) =>
          match parseRat2 em ee with
          | none => bad "escape"
          | some esc =>
          let exact := ex.startsWith "1"
          let decay := (ex.splitOn "d").length > 1
          let rebuilt := (ex.splitOn "r").length > 1
          let tol : Rat := if exact then 0 else 1 / 100000000000
          let s := rates.sum
          let val := fun (i : Nat) => (rates.getD i 0) / s
          let arr := (nodes.map (·.1)).toArray
          match ofNodes arr val (nNodes + 1) (nNodes - 1) with
          | none => { agree := false, propOk := false, msg := "node array is not a tree rooted at the last node", tag := "tree:malformed" }
          | some shape =>
            let t := finish shape
            -- correspondence 1: thresholds per node
            let thrM := thresholds t
            let thrOk := thrM.all fun (i, p) => match nodes[i]? with | some (_, pi) => close p pi tol | none => false
            -- correspondence 2: every lookup
            let thrs := nodes.map (·.2)
            let nearThr (p : Rat) : Bool := !exact && thrs.any (fun th => close p th (1 / 1000000000))
            -- a lookup exactly at a threshold may fall to either neighbouring event (a set of measure zero; `>` vs `>=`
            -- in the descent is not observable by the property), everywhere else the model's answer is required
            let mthr := thrM.map (·.2)
            let below (p : Rat) : Rat := (mthr.filter (· < p)).foldl (fun m x => if m < x then x else m) (p - 1)
            let above (p : Rat) : Rat := (mthr.filter (· > p)).foldl (fun m x => if x < m then x else m) (p + 1)
            let findOk := qs.all fun (p, ev) => nearThr p || (find t p : Int) == ev ||
              (mthr.contains p && ((find t ((p + below p) / 2) : Int) == ev || (find t ((p + above p) / 2) : Int) == ev))
            -- property on the implementation's own answers: valid events, constant on every interval between
            -- consecutive thresholds, and the length of the set selecting an event is rate/sum
            let valid := qs.all fun (_, ev) => 0 ≤ ev && ev < (nEv : Int)
            let pts := (thrs.filter (fun p => 0 ≤ p && p ≤ 1)).foldl (fun acc p => insertSorted p acc) [0, 1]
            let ivs := intervals pts
            -- judged on the interior of the intervals only: which side a threshold itself belongs to is a set of measure zero
            let evIn (a b : Rat) : Int := match qs.find? (fun (p, _) => a < p && p < b) with | some (_, e) => e | none => -1
            let ivsE := ivs.map fun (a, b) => (a, b, evIn a b)
            let constOk := ivsE.all fun (a, b, eb) => qs.all fun (p, ev) => !(a < p && p < b) || ev == eb
            let measure (e : Nat) : Rat := (ivsE.filter (fun (_, _, eb) => eb == (e : Int))).foldl (fun acc (a, b, _) => acc + (b - a)) 0
            let measOk := (List.range nEv).all fun e => close (measure e) (val e) (if exact then 0 else 1 / 1000000000)
            let zeroOk : Bool := qs.any (fun (p, _) => p == 0)
            let escOk := close esc s (if exact then 0 else 1 / 1000000000000)
            -- the leaves of the dumped tree are exactly the events, each once
            let lv := (leavesRL shape).map (·.1)
            let permOk := lv.length == nEv && (List.range nEv).all (fun e => lv.contains e)
            let ok := valid && constOk && measOk && zeroOk && escOk && permOk
            { agree := thrOk && findOk, propOk := ok,
              msg := if ok then (if thrOk then "lookup differs from model" else s!"thresholds differ: model {thrM.take 6}")
                     else s!"valid={valid} constant={constOk} measure={measOk} p0={zeroOk} escape={escOk} leaves={permOk} measures={(List.range (min nEv 8)).map measure} want={(List.range (min nEv 8)).map val}",
              tag := s!"tree:{if exact then "exact" else "generic"}:{if nEv % 2 == 1 then "odd" else "even"}:{if nEv == 1 then "n1" else if nEv ≤ 4 then "n2-4" else if nEv ≤ 12 then "n5-12" else "n13+"}{if decay then ":decay-event" else ""}{if rebuilt then ":rebuilt" else ""}" }
        | _ => bad "tree queries"
      | _ => bad "tree q missing"
    | _ => bad "tree k missing"
  | _ => bad "tree arity"

def toF (m e : String) : Option Float := do
  let a ← m.toInt?
  let b ← e.toInt?
  pure ((Float.ofInt a).scaleB b)

def takeFloats : Nat → List String → Option (List Float × List String)
  | 0, l => some ([], l)
  | k + 1, m :: e :: rest => do
    let x ← toF m e
    let (xs, r) ← takeFloats k rest
    pure (x :: xs, r)
  | _, _ => none

def fclose (a b tol : Float) : Bool := (a - b).abs ≤ tol * (a.abs + b.abs) || (a == b)

def handleRates (args : List String) : Verdict :=
  match args with
  | q :: rest =>
    match takeFloats 22 rest with
    | some ([pi, hbar, ev2hrt, e1, e2, in12, in21, lo, rx, ry, rz, fx, fy, fz, kT, j2, k12, k21, k12b, k21b, direct, eq], []) =>
      let charge : Float := if q == "-1" then Votca.Gen.Marcus.chargeElectronF else if q == "1" then Votca.Gen.Marcus.chargeHoleF else 0.0
      let p : PairIn := { pi := pi, hbar := hbar, ev2hrt := ev2hrt, charge := charge, e1 := e1, e2 := e2, inner12 := in12, inner21 := in21, lambdaO := lo,
                          r := (rx, ry, rz), f := (fx, fy, fz), kT := kT, j2 := j2 }
      let (m12, m21) := pairRates p
      let mdirect := Votca.Gen.Marcus.marcusrateF pi hbar ev2hrt j2 (e1 - e2) (Votca.Gen.Marcus.reorg12F in12 lo) kT
      let agree := fclose m12 k12 1e-12 && fclose m21 k21 1e-12 && fclose mdirect direct 1e-12
      -- property on the implementation's numbers; the charge of the property: -1 electron, +1 hole, 0 for the neutral excitations
      let qProp : Float := if q == "-1" then -1.0 else if q == "1" then 1.0 else 0.0
      let pos := k12 > 0 && k21 > 0
      let lin := fclose k12b (2 * k12) 1e-12 && fclose k21b (2 * k21) 1e-12
      let equal := eq == 1.0      -- equal forward / backward reorganisation energy of the pair (inner parts equal; the outer part is one number)
      let dG := (e1 - e2) + qProp * dot3 (rx, ry, rz) (fx, fy, fz)
      let under := k12 == 0 || k21 == 0      -- underflow of exp for very unfavourable hops: not judged
      let db := !equal || under || fclose (Float.log (k12 / k21)) (dG / kT) 1e-9 || (Float.log (k12 / k21) - dG / kT).abs < 1e-9
      let ok := (under && !(k12 != k12) && !(k21 != k21)) || (pos && lin && db)
      { agree := agree, propOk := ok,
        msg := if ok then s!"model {m12} {m21} {mdirect}" else s!"positive={pos} linearJ2={lin} detailedBalance={db}: k12={k12} k21={k21} ln(k12/k21)={Float.log (k12 / k21)} dG/kT={dG / kT} lambdaO={lo}",
        tag := s!"rates:{if equal then "equal-reorg" else "unequal-reorg"}:{if q == "-1" then "electron" else if q == "1" then "hole" else if q == "0s" then "singlet" else "triplet"}{if lo != 0.0 then ":lambdaO" else ""}{if under then ":underflow" else ""}" }
    | _ => bad "rates fields"
  | _ => bad "rates arity"

def handle (args : List String) : Verdict :=
  match args with
  | "tree" :: r => handleTree r
  | "rates" :: r => handleRates r
  | _ => bad "unknown op"

end Driver.C14
