import Votca.Model.C17
/-! line-protocol handler for C17 (core only): one line = one operation sequence with the implementation's results inline -/
namespace Driver.C17
open Votca Votca.C17

abbrev P := StateT (List String) Option
def tok : P String := fun l => match l with | [] => none | a :: r => some (a, r)
def nat : P Nat := do let t ← tok; (t.toNat? : Option Nat)
def int : P Int := do let t ← tok; (t.toInt? : Option Int)
def rat : P Rat := do let m ← tok; let e ← tok; (parseRat2 m e : Option Rat)
def str : P String := do let t ← tok; let cs ← (unhex t : Option (List Char)); pure (String.ofList cs)
def many {α} (p : P α) : Nat → P (List α)
  | 0 => pure []
  | k + 1 => do let a ← p; let r ← many p k; pure (a :: r)

def pObj (kind : String) : P Obj :=
  if kind == "i" then do let v ← int; pure (.int v)
  else if kind == "d" then do let v ← rat; pure (.dbl v)
  else if kind == "b" then do let v ← nat; pure (.bool (v == 1))
  else if kind == "s" then do let v ← str; pure (.str v)
  else if kind == "vi" then do let n ← nat; let l ← many int n; pure (.vecI l)
  else if kind == "vd" then do let n ← nat; let l ← many rat n; pure (.vecD l)
  else if kind == "vs" then do let n ← nat; let l ← many str n; pure (.vecS l)
  else if kind == "m" then do let r ← nat; let c ← nat; let l ← many rat (r * c); pure (.mat r c l)
  else if kind == "v3" then do let x ← rat; let y ← rat; let z ← rat; pure (.v3 x y z)
  else if kind == "lv3" then do let n ← nat; let l ← many (do let x ← rat; let y ← rat; let z ← rat; pure (x, y, z)) n; pure (.lv3 l)
  else failure

/-- one operation with the implementation's outcome -/
inductive Ev
  | op (o : Op) (out : Out)
  | level

def pEv : P Ev := do
  let t ← tok
  if t == "W" then do
    let level ← nat; let path ← str; let name ← str; let st ← tok; let kind ← tok
    let o ← pObj kind
    pure (.op (.write level (path, name) o) (if st == "ok" then .ok else .err))
  else if t == "R" then do
    let path ← str; let name ← str; let st ← tok; let kind ← tok
    if st == "ok" then do let o ← pObj kind; pure (.op (.read (path, name) kind) (.val o))
    else pure (.op (.read (path, name) kind) .err)
  else if t == "L" then do let _ ← nat; pure .level
  else failure

def describe : Op → String
  | .write l k o => s!"write(level {l}) {k.1}:{k.2} kind {o.kind}"
  | .read k kind => s!"read {k.1}:{k.2} kind {kind}"

def shapeOf : Obj → String
  | .mat r c _ => s!"{r}x{c}"
  | .vecI l => s!"{l.length}" | .vecD l => s!"{l.length}" | .vecS l => s!"{l.length}" | .lv3 l => s!"{l.length}"
  | _ => ""

def handleSeq (args : List String) : Verdict :=
  let p : P Verdict := do
    let n ← nat
    let evs ← many pEv n
    let ops := evs.filterMap fun e => match e with | .op o out => some (o, out) | .level => none
    let model := run [] (ops.map (·.1))
    -- a read that asks for another kind than the one stored is not judged: HDF5 converts between the numeric kinds, and the property
    -- speaks of names never written, not of names holding another kind
    let opsOnly : List Op := ops.map (·.1)
    let storeBefore : Nat → Store := fun i => (opsOnly.take i).foldl (fun (st : Store) (o : Op) => (step st o).1) []
    let kindClash : Nat → Bool := fun i => match opsOnly[i]? with
      | some (Op.read k kind) => (match (storeBefore i).find? (fun e => e.1 == k) with | some e => e.2.kind != kind | none => false)
      | _ => false
    let bad := (ops.zip model).zipIdx.find? fun (((_, out), m), i) => out != m && !kindClash i
    let kinds := ops.map fun (o, _) => match o with | .write _ _ ob => ob.kind | .read _ k => k
    let overwrites := (ops.zipIdx.filter fun ((o, _), i) => match o with
      | .write _ k _ => (ops.take i).any fun (o2, _) => match o2 with | .write _ k2 _ => k2 == k | _ => false
      | _ => false).length
    let tag := s!"seq-{if kinds.contains "m" then "mat" else "nomat"}-{if overwrites > 0 then "overwrite" else "fresh"}{if evs.any (fun e => match e with | .level => true | _ => false) then "-reopen" else ""}"
    match bad with
    | none => pure { tag := tag }
    | some (((o, out), m), i) =>
      -- classify: what the store model expects vs what the implementation did
      let cls := match o, out, m with
        | .write _ _ ob, .err, .ok => s!"WRITE-REFUSED {ob.kind} {shapeOf ob}"
        | .write _ _ _, .ok, .err => "READONLY-WRITE-ACCEPTED"
        | .read _ kind, .err, .val ob => s!"READ-FAILED {kind} {shapeOf ob}"
        | .read _ kind, .val ob, .err => s!"READ-OF-MISSING-SUCCEEDED {kind} {shapeOf ob}"
        | .read _ kind, .val ob, .val ob' => s!"READ-DIFFERS {kind} stored {shapeOf ob'} returned {shapeOf ob}"
        | _, _, _ => "OTHER"
      pure { agree := false, propOk := false, tag := tag, msg := s!"CPT-{cls} at operation {i}: {describe o}" }
  match p.run args with
  | some (v, []) => v
  | _ => { agree := false, msg := "bad-line", tag := "bad" }

/-- structured table rows: the table read from a fresh handle is the table written last under that name, row for row, bit for bit -/
def handleTbl (args : List String) : Verdict :=
  let rowP : P (Int × String × Rat × Rat × Int) := do
    let id ← int; let l ← str; let x ← rat; let w ← rat; let k ← int; pure (id, l, x, w, k)
  let p : P Verdict := do
    let _path ← str
    let n1 ← nat; let a ← many rowP n1
    let again ← nat
    let n2 ← nat; let b ← many rowP n2
    let bar ← tok
    if bar != "|" then failure else
    let st1 ← tok; let st2 ← tok; let st3 ← tok
    let nb ← nat; let back ← many rowP nb
    -- the store model: a name holds the value written last
    let expected := if again == 1 then b else a
    let tag := s!"table-{if again == 1 then (if n1 == n2 then "overwrite-same-rows" else if n2 < n1 then "overwrite-fewer-rows" else "overwrite-more-rows") else "fresh"}"
    if st1 != "ok" then pure { agree := false, propOk := false, msg := "CPT-TABLE-WRITE-REFUSED a fresh table could not be written", tag := tag } else
    let refused : String := s!"CPT-TABLE-OVERWRITE-REFUSED writing a table of {n2} rows under a name that holds {n1} rows failed instead of replacing it"
    if again == 1 && st2 != "ok" then pure { agree := false, propOk := false, tag := tag, msg := refused } else
    if st3 != "ok" then pure { agree := false, propOk := false, msg := "CPT-TABLE-READ-FAILED", tag := tag } else
    let ok := back == expected
    let firstBad : Option Nat := ((back.zip expected).zipIdx.find? fun ((x, y), _) => x != y).map (·.2)
    let differs : String := s!"CPT-TABLE-DIFFERS {nb} rows read, {expected.length} rows written last ({n1} rows before); first differing row {firstBad}"
    pure { agree := ok, propOk := ok, tag := tag, msg := differs }
  match p.run args with
  | some (v, []) => v
  | _ => { agree := false, msg := "bad-line", tag := "bad" }

/-- large values: the harness compared bit for bit; the clause is "reading the same name from a fresh handle returns a bit-identical
    value" (after an overwrite: the value written last) -/
def handleBig (args : List String) : Verdict :=
  match args with
  | [kind, rows, cols, _path, pre, w1, w2, rs, nback, mism, firstbad] =>
    let ok := w1 == "ok" && (w2 == "ok" || w2 == "-") && rs == "ok" && mism == "0"
    let n := (rows.toNat?.getD 0) * (cols.toNat?.getD 0)
    let cls := if n < 8191 then "below-8191" else if n ≤ 32768 then "8191-32768" else "above-32768"
    let seqS := if pre == "0" then "written once" else if pre == "1" then "small then large" else "large then small"
    let msg := s!"CPT-BIG {kind} {rows}x{cols} ({seqS}): first write {w1}, second write {w2}, read {rs}, {nback} elements back, {mism} differ (first at {firstbad})"
    ({ agree := ok, propOk := ok, msg := if ok then "" else msg, tag := s!"big:{kind}:{cls}:pre{pre}" } : Verdict)
  | _ => { agree := false, msg := "bad-line big", tag := "bad" }

def handle (args : List String) : Verdict :=
  match args with
  | "big" :: rest => handleBig rest
  | "seq" :: rest => handleSeq rest
  | "tbl" :: rest => handleTbl rest
  | _ => { agree := false, msg := "bad-line", tag := "bad" }

end Driver.C17
