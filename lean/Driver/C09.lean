import Votca.Model.C09
/-! line-protocol handlers for C09 (core only): exact certificates on what the Davidson solver returned -/
namespace Driver.C09
open Votca Votca.C06 Votca.C09

abbrev P := StateT (List String) Option
def tok : P String := fun l => match l with | [] => none | a :: r => some (a, r)
def nat : P Nat := do let t ← tok; (t.toNat? : Option Nat)
def rat : P Rat := do let m ← tok; let e ← tok; (parseRat2 m e : Option Rat)
def many {α} (p : P α) : Nat → P (List α)
  | 0 => pure []
  | k + 1 => do let a ← p; let r ← many p k; pure (a :: r)
def mat : P Mat := do let r ← nat; let c ← nat; many (many rat c) r

def showR (r : Rat) : String := toString (Float.ofInt r.num / Float.ofNat r.den)
def maxAbsM (A : Mat) : Rat := A.foldl (fun m row => let a := maxAbs row; if m < a then a else m) 0

def handleSymm (args : List String) : Verdict :=
  let p : P Verdict := do
    let kind ← nat; let neigen ← nat; let corr ← tok; let upd ← tok; let tol ← rat; let itmax ← nat; let mss ← nat
    let A ← mat
    let status ← tok
    let iters ← nat
    let nev ← nat
    let ev ← many rat nev
    let V ← mat
    let kinds := ["diagdom", "clustered", "degenerate", "negative", "wide", "decoupled", "upstream"]
    let tag := s!"symm-{kinds.getD kind "?"}-{corr}-{upd}{if mss > 0 then "-restart" else ""}{if itmax < 50 then "-fewiter" else ""}"
    -- the solver threw (Gram-Schmidt found linearly dependent correction vectors): it "says so" — except on diagonally dominant matrices
    -- (kinds diagdom and upstream) with the full iteration budget and at most size/4 roots, where the property promises success
    let dominant := (kind == 0 || kind == 6) && itmax == 50 && neigen * 4 ≤ A.length
    if status == "error" then
      pure { agree := true, propOk := !dominant, tag := "symm-exception-" ++ kinds.getD kind "?" ++ (if dominant then "" else "-unjudged"),
             msg := s!"DAVIDSON-DIAGDOM-EXCEPTION the solver threw on a diagonally dominant {A.length}x{A.length} matrix ({neigen} roots, {corr}, {upd}, tol {showR tol}, matrix kind {kinds.getD kind "?"}) instead of reporting success" } else
    let cols := transpose V
    let scale := 1 + maxAbsM A
    if status == "noconv" then
      -- every root handed out as non-zero must have passed the residual test
      let bad := (ev.zip cols).zipIdx.find? fun ((l, v), _) => !(maxAbs v == 0 && l == 0) && !(residualSq A l v < tol * tol * (1 + 1 / 1000))
      let ddFail := dominant
      pure { agree := true, propOk := bad.isNone && !ddFail, tag := tag ++ "-noconv",
             msg := if ddFail then s!"DAVIDSON-DIAGDOM-NOCONV no convergence on a diagonally dominant {A.length}x{A.length} matrix within {itmax} iterations ({corr}, {upd}, tol {showR tol})"
                    else s!"DAVIDSON-UNCONVERGED-ROOT-RETURNED root {(bad.map (·.2)).getD 0} is non-zero although its residual is above the tolerance" } else
    -- success: residuals, normalisation, orthogonality, order, and the inertia certificate for "lowest"
    let resOk := (ev.zip cols).all fun (l, v) => residualSq A l v < tol * tol * (1 + 1 / 1000)
    let normOk := cols.all fun v => absRat (dot v v - 1) ≤ 1 / 10 ^ 9
    let orthoOk := cols.zipIdx.all fun (v, i) => cols.zipIdx.all fun (w, j) => i ≥ j || absRat (dot v w) ≤ 1 / 10 ^ 6
    let orderOk := (ev.zip ev.tail).all fun (a, b) => a ≤ b + scale / 10 ^ 12
    let delta := 2 * tol + scale / 10 ^ 9
    let lowest := ev.zipIdx.all fun (l, j) =>
      match countBelowRobust A (l + delta) (delta / 1000), countBelowRobust A (l - delta) (-(delta / 1000)) with
      | some hi, some lo => hi ≥ j + 1 && lo ≤ j
      | _, _ => false
    let ok := nev == neigen && resOk && normOk && orthoOk && orderOk && lowest
    let below := (ev.getLast?.bind fun l => countBelowRobust A (l - delta) (-(delta / 1000))).getD 0
    -- a near miss: every skipped eigenvalue lies within 0.025 below the value returned in its place (a neighbour in a cluster)
    let nearMiss := ev.zipIdx.all fun (l, j) =>
      match countBelowRobust A (l - 1 / 40) (-(1 / 100000)) with
      | some lo => lo ≤ j
      | none => false
    -- there is no model of the numerics to agree with: the certificates are the property
    pure { agree := true, propOk := ok, tag := tag,
           msg := if !lowest && resOk then s!"DAVIDSON-NOT-LOWEST success reported, but {below} eigenvalues lie below the last returned value {showR (ev.getLast?.getD 0)} ({neigen} roots requested, matrix kind {kinds.getD kind "?"}, {iters} iterations, tol {showR tol}, nearMiss={nearMiss})"
                  else s!"DAVIDSON-SUCCESS-CLAUSES residual={resOk} normalised={normOk} orthogonal={orthoOk} ascending={orderOk} lowest={lowest}" }
  match p.run args with
  | some (v, []) => v
  | _ => { agree := false, msg := "bad-line", tag := "bad" }

def handleHam (args : List String) : Verdict :=
  let p : P Verdict := do
    let neigen ← nat
    let A ← mat; let B ← mat
    let status ← tok
    if status == "error" then pure { tag := "ham-exception" } else
    let nev ← nat
    let ev ← many rat nev
    let V ← mat
    if status != "success" then pure { tag := "ham-noconv" } else
    let m := A.length
    let apb := (A.zip B).map fun (r, s) => vadd r s
    let amb := (A.zip B).map fun (r, s) => vsub r s
    let H : Mat := (A.zip B).map (fun (r, s) => r ++ s) ++ (A.zip B).map (fun (r, s) => (s.map (-·)) ++ (r.map (-·)))
    let cols := transpose V
    let tol : Rat := 1 / 100000
    let resOk := (ev.zip cols).all fun (l, v) => residualSq H l v < tol * tol * (1 + absRat l) * (1 + absRat l) * 4 * (dot v v)
    let posOk := ev.all (· > 0)
    let orderOk := (ev.zip ev.tail).all fun (a, b) => a ≤ b + 1 / 10 ^ 10
    -- ω² are the eigenvalues of (A-B)(A+B): count those below s by the inertia of (A+B)(A-B)(A+B) - s(A+B)
    let K := matMul (matMul apb amb) apb
    let count := fun (s : Rat) => (pivots m ((K.zip apb).map fun (kr, pr) => (kr.zip pr).map fun (a, b) => a - s * b)).map fun ps => (ps.filter (· < 0)).length
    let delta : Rat := 1 / 1000
    let lowest := ev.zipIdx.all fun (l, j) =>
      match count ((l + delta) * (l + delta)), count ((l - delta) * (l - delta)) with
      | some hi, some lo => hi ≥ j + 1 && lo ≤ j
      | _, _ => true
    let ok := nev == neigen && resOk && posOk && orderOk && lowest
    pure { agree := true, propOk := ok, tag := "ham-success",
           msg := s!"DAVIDSON-HAM residual={resOk} positive={posOk} ascending={orderOk} lowestPositive={lowest}" }
  match p.run args with
  | some (v, []) => v
  | _ => { agree := false, msg := "bad-line", tag := "bad" }

def handle (args : List String) : Verdict :=
  match args with
  | "symm" :: rest => handleSymm rest
  | "ham" :: rest => handleHam rest
  | _ => { agree := false, msg := "bad-line", tag := "bad" }

end Driver.C09
