import Votca.Model.C04
/-! line-protocol handler for C04 (core only): one line = one complete `csg_stat` run (inputs and every value it wrote) -/
namespace Driver.C04
open Votca Votca.C04

abbrev P := StateT (List String) Option

def tok : P String := fun l => match l with | [] => none | a :: r => some (a, r)
def nat : P Nat := do let t ← tok; (t.toNat? : Option Nat)
def int : P Int := do let t ← tok; (t.toInt? : Option Int)
def rat : P Rat := do let m ← tok; let e ← tok; (parseRat2 m e : Option Rat)
def str : P String := do let t ← tok; let cs ← (unhex t : Option (List Char)); pure (String.ofList cs)
def expect (s : String) : P Unit := do let t ← tok; if t == s then pure () else failure
def many {α} (p : P α) : Nat → P (List α)
  | 0 => pure []
  | k + 1 => do let a ← p; let r ← many p k; pure (a :: r)
def counted {α} (p : P α) : P (List α) := do let n ← nat; many p n
def v3 : P V3 := do let x ← rat; let y ← rat; let z ← rat; pure ⟨x, y, z⟩

def pCg : P CgDef := do
  let t ← str; let m ← nat; let k ← nat
  let aw ← many (do let a ← nat; let w ← rat; pure (a, w)) k
  pure { type := t, mol := m, atoms := aw.map (·.1), weights := aw.map (·.2) }

def pIa : P Ia := do
  let d ← nat; let k ← nat; let bs ← counted nat
  pure { defIdx := d, kind := k, beads := bs }

def pDef : P (IDef × List Rat) := do
  let k ← nat; let t1 ← str; let t2 ← str; let t3 ← str
  let mn ← rat; let mx ← rat; let st ← rat; let cut ← rat; let g ← nat
  let cosb ← counted rat
  let tgt ← counted rat
  pure ({ kind := k, t1 := t1, t2 := t2, t3 := t3, min := mn, max := mx, step := st, cut := cut, group := g, cosb := cosb }, tgt)

def pFrame : P Frame := do
  let a ← v3; let b ← v3; let c ← v3
  let ps ← counted v3
  pure { box := ⟨a, b, c⟩, atoms := ps }

/-- one written file: kind (dist / imc / gmc / idx), the interaction or group index, the block number, the numbers -/
structure Written where
  kind : String
  idx : Nat
  block : Nat
  vals : List Rat
  deriving Inhabited

def pOut : P Written := do
  let k ← tok; let i ← nat; let b ← nat; let vs ← counted rat
  pure { kind := k, idx := i, block := b, vals := vs }

structure Input where
  blockLen : Nat
  imc : Bool
  intra : Bool
  first : Nat
  nframes : Int
  nt : Nat
  cg : List CgDef
  ias : List Ia
  defs : List (IDef × List Rat)
  frames : List Frame
  status : String
  outs : List Written

def pInput : P Input := do
  let _sid ← tok
  let bl ← nat; let imc ← nat; let intra ← nat; let first ← nat; let nf ← int; let nt ← nat
  expect "CG"; let cg ← counted pCg
  expect "IA"; let ias ← counted pIa
  expect "DEF"; let defs ← counted pDef
  expect "FR"; let frs ← counted pFrame
  expect "OUT"; let status ← tok; let outs ← counted pOut
  pure { blockLen := bl, imc := imc == 1, intra := intra == 1, first := first, nframes := nf, nt := nt, cg := cg, ias := ias,
         defs := defs, frames := frs, status := status, outs := outs }

def tolRel : Rat := 1 / 20000000        -- the files carry 8–10 significant digits
def close (a b scale : Rat) : Bool := absRat (a - b) ≤ tolRel * (absRat a + absRat b) + scale / 1000000000000

/-- `y·π = q` within the printing precision, with π enclosed between `piLo` and `piHi` -/
def closePi (y q : Rat) : Bool := close (y * piLo) q 1 || close (y * piHi) q 1

def firstBad {α} (l : List α) (ok : α → Bool) : Option Nat := (l.zipIdx.find? fun (a, _) => !ok a).map (·.2)

def showR (r : Rat) : String := toString (Float.ofInt r.num / Float.ofNat r.den)

/-- compare one written file against the model output of the same block -/
def judge (inp : Input) (defs : List IDef) (o : Out) (w : Written) : Option String :=
  if w.kind == "dist" then
    match defs[w.idx]? with
    | none => some "dist of unknown interaction"
    | some d =>
      let n := nbins d
      let xs := w.vals.take n
      let ys := w.vals.drop n
      let avg := o.avgs.getD w.idx []
      if w.vals.length != 2 * n then some s!"dist {w.idx} block {w.block}: {w.vals.length / 2} rows written, {n} bins expected" else
      if !((xs.zip (centres d)).all fun (a, b) => close a b 1) then some s!"dist {w.idx}: x column differs from min + i·step" else
      if d.kind = 0 then
        let q := rdfTimesPi d inp.cg o.vbar avg
        match firstBad (ys.zip q) (fun (y, q) => closePi y q) with
        | some i => some s!"RDF-MISMATCH interaction {w.idx} block {w.block} bin {i}: written {showR (ys.getD i 0)}, recomputed {showR (q.getD i 0 / piLo)} (avg count {showR (avg.getD i 0)}, avg volume {showR o.vbar})"
        | none => none
      else
        let q := unitDist d avg
        match firstBad (ys.zip q) (fun (y, q) => close y q 1) with
        | some i => some s!"UNIT-DIST-MISMATCH interaction {w.idx} block {w.block} bin {i}: written {showR (ys.getD i 0)}, recomputed {showR (q.getD i 0)}"
        | none => none
  else if w.kind == "imc" then
    let ix := groupIndex defs w.idx
    let n := ix.length
    let ds := w.vals.drop n
    if w.vals.length != 2 * n then some s!"imc group {w.idx}: {w.vals.length / 2} rows, {n} expected" else
    let parts := (groupMembers defs w.idx).flatMap fun k =>
      match inp.defs[k]? with
      | none => []
      | some (d, tgt) => dSParts d inp.cg o.vbar (o.avgs.getD k []) tgt
    match firstBad (ds.zip parts) (fun (y, h, t) => close y (h - t * piLo) (1 + absRat h + absRat t * 4) || close y (h - t * piHi) (1 + absRat h + absRat t * 4)) with
    | some i => some s!"DS-MISMATCH group {w.idx} block {w.block} row {i}: written {showR (ds.getD i 0)}, recomputed {showR ((parts.getD i (0,0)).1 - (parts.getD i (0,0)).2 * piLo)}"
    | none => none
  else if w.kind == "gmc" then
    let m := gmc defs w.idx o.frames
    let flat := m.flatten
    if w.vals.length != flat.length then some s!"gmc group {w.idx}: {w.vals.length} entries, {flat.length} expected" else
    let n := m.length
    let scale := 1 + (flat.foldl (fun a x => if a < absRat x then absRat x else a) 0)
    match firstBad (w.vals.zip flat) (fun (y, q) => close y q (scale * 1000)) with
    | some i => some s!"GMC-MISMATCH group {w.idx} block {w.block} entry ({i / n},{i % n}): written {showR (w.vals.getD i 0)}, recomputed {showR (flat.getD i 0)}"
    | none =>
      -- the written matrix itself must be symmetric
      let at_ := fun (i j : Nat) => w.vals.getD (i * n + j) 0
      if (List.range n).all fun i => (List.range n).all fun j => at_ i j == at_ j i then none
      else some s!"GMC-NOT-SYMMETRIC group {w.idx} block {w.block}"
  else if w.kind == "idx" then
    -- name index, begin, end triples (1-based, contiguous)
    let mem := groupMembers defs w.idx
    let expd := (mem.foldl (fun (acc : List Rat × Nat) (k : Nat) =>
      let n := (defs[k]?.map nbins).getD 0
      (acc.1 ++ [(k : Rat), ((acc.2 + 1 : Nat) : Rat), ((acc.2 + n : Nat) : Rat)], acc.2 + n)) ([], 0)).1
    if w.vals == expd then none else some s!"IDX-MISMATCH group {w.idx}"
  else some ("unknown output kind " ++ w.kind)

def handleRun (args : List String) : Verdict :=
  match pInput.run args with
  | none => { agree := false, msg := "bad-line", tag := "bad" }
  | some (inp, rest) =>
    if !rest.isEmpty then { agree := false, msg := "bad-line trailing tokens", tag := "bad" } else
    let defs := inp.defs.map (·.1)
    let sel := selectFrames inp.first inp.nframes inp.frames
    let feats := (if inp.blockLen > 0 then "block" else "final") ++ (if inp.imc then "-imc" else "") ++ (if inp.intra then "-intra" else "") ++
      (if inp.first > 0 || inp.nframes ≥ 0 then "-select" else "") ++ (if inp.nt > 1 then "-mt" else "") ++
      (if defs.any (·.kind == 1) then "-3body" else "") ++ (if sel.any (fun f => !f.box.isDiagonal) then "-tric" else "")
    if !(sel.head?.map (beginOk defs)).getD true then
      { agree := inp.status != "ok", msg := "csg_stat accepted a max beyond half the box", tag := "rejected-half-box" } else
    match sel.mapM (frameData defs inp.cg inp.ias inp.intra) with
    | none => { agree := inp.status != "ok", propOk := true, msg := "model rejects the mapping (bead larger than half the box) but csg_stat ran", tag := "rejected" }
    | some fds =>
      -- values that sit on a bin boundary up to rounding are not judged
      let near := sel.any fun f =>
        match cgPositions f inp.cg with
        | none => false
        | some ps => ((defs.zip (frameQs defs inp.cg inp.ias inp.intra f ps)).any fun (d, qs) => qs.any fun q => nearBoundary d q (1 / 100000000))
      if near then { tag := "skip-near-boundary" } else
      if inp.status != "ok" then
        { agree := false, propOk := true, msg := "csg_stat failed on an input the model accepts: " ++ inp.status, tag := "impl-error" } else
      let outs := run defs inp.blockLen fds
      -- every model output must have been written, and every written file must match
      let wanted := outs.flatMap fun o => (List.range defs.length).map fun k => (o.block, k)
      let missing := wanted.filter fun (b, k) => !(inp.outs.any fun w => w.kind == "dist" && w.block == b && w.idx == k)
      let extra := inp.outs.filter fun w => !(outs.any fun o => o.block == w.block)
      if !missing.isEmpty then { agree := false, propOk := false, msg := s!"MISSING-OUTPUT block {missing.head!.1} interaction {missing.head!.2}", tag := feats } else
      if !extra.isEmpty then { agree := false, propOk := false, msg := s!"UNEXPECTED-OUTPUT {extra.head!.kind} block {extra.head!.block}", tag := feats } else
      let errs := inp.outs.filterMap fun w =>
        match outs.find? fun o => o.block == w.block with
        | none => some "no model output for block"
        | some o => judge inp defs o w
      match errs.head? with
      | some e => { agree := false, propOk := false, msg := e, tag := feats }
      | none => { tag := feats }

def handle (args : List String) : Verdict :=
  match args with
  | "run" :: rest => handleRun rest
  | _ => { agree := false, msg := "bad-line", tag := "bad" }

end Driver.C04
