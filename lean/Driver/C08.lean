import Votca.Model.C08
/-! line-protocol handlers for C08 (core only) -/
namespace Driver.C08
open Votca Votca.C08

abbrev P := StateT (List String) Option
def tok : P String := fun l => match l with | [] => none | a :: r => some (a, r)
def nat : P Nat := do let t ← tok; (t.toNat? : Option Nat)
def rat : P Rat := do let m ← tok; let e ← tok; (parseRat2 m e : Option Rat)
def str : P String := do let t ← tok; let cs ← (unhex t : Option (List Char)); pure (String.ofList cs)
def expect (s : String) : P Unit := do let t ← tok; if t == s then pure () else failure
def many {α} (p : P α) : Nat → P (List α)
  | 0 => pure []
  | k + 1 => do let a ← p; let r ← many p k; pure (a :: r)
def v3 : P (List Rat) := many rat 3

structure Fr where
  box : List Rat          -- 9 values, column by column
  hv : Bool
  hf : Bool
  pos : List (List Rat)
  vel : List (List Rat)
  frc : List (List Rat)

def pFrame (n : Nat) (vel frc : Bool) (flags : Bool) : P Fr := do
  let box ← many rat 9
  let (hv, hf) ← (if flags then do let a ← nat; let b ← nat; pure (a == 1, b == 1) else pure (vel, frc))
  let beads ← many (do
    let p ← v3
    let v ← (if hv then v3 else pure [])
    let f ← (if hf then v3 else pure [])
    pure (p, v, f)) n
  pure { box := box, hv := hv, hf := hf, pos := beads.map (·.1), vel := beads.map (·.2.1), frc := beads.map (·.2.2) }

def showR (r : Rat) : String := toString (Float.ofInt r.num / Float.ofNat r.den)

/-- every component: read-back equals the model's round trip (correspondence) / lies within the printed precision of the original (property) -/
def fieldCheck (f : Field) (orig back : List (List Rat)) : Bool × Bool × String :=
  let pairs := (orig.zip back).flatMap fun (a, b) => a.zip b
  let agree := pairs.all fun (x, y) => absRat (y - f.roundtrip x) ≤ (1 + absRat x) / 10 ^ 11
  let bad := pairs.find? fun (x, y) => !(absRat (y - x) ≤ f.tol x * (1 + 1 / 1000) + (1 + absRat x) / 10 ^ 12)
  (agree, bad.isNone && orig.length == back.length, match bad with | some (x, y) => s!"original {showR x} read back {showR y} (allowed {showR (f.tol x)})" | none => "")

def foldCheck (pairs : List (Fr × Fr)) (f : Fr → Fr → Bool × Bool × String) : Bool × Bool × String :=
  pairs.foldl (fun (acc : Bool × Bool × String) (ob : Fr × Fr) =>
    let r := f ob.1 ob.2
    (acc.1 && r.1, acc.2.1 && r.2.1, if acc.2.2 == "" then r.2.2 else acc.2.2)) (true, true, "")

def handleTraj (args : List String) : Verdict :=
  let p : P Verdict := do
    let fmt ← tok
    let n ← nat; let F ← nat; let vel ← nat; let frc ← nat
    let names ← many str n
    let orig ← many (pFrame n (vel == 1) (frc == 1) false) F
    expect "|"
    let status ← str
    match fmtOf fmt with
    | none => pure { agree := false, msg := "unknown format", tag := "bad" }
    | some spec =>
    if status != "ok" then
      pure { agree := true, propOk := false, msg := s!"C08-{fmt.toUpper}-UNREADABLE the file written by the {fmt} writer is refused by the {fmt} reader: {status.take 80}", tag := s!"traj-{fmt}-unreadable" } else
    let topStatus ← str
    let topn ← nat
    let topNames ← many str topn
    let nread ← nat
    let back ← many (pFrame n false false true) nread
    let triclinic := orig.any fun f => [3, 6, 7, 1, 2, 5].any fun i => f.box.getD i 0 != 0
    let tag := s!"traj-{fmt}-{if triclinic then "tric" else "ortho"}{if vel == 1 then "-v" else ""}{if frc == 1 then "-f" else ""}-{F}fr"
    -- clauses
    let framesOk := nread == F
    let pairs := orig.zip back
    let (posA, posP, posM) := foldCheck pairs fun o b => fieldCheck spec.pos o.pos b.pos
    let (velA, velP, velM) := match spec.vel with
      | some f => if vel == 1 then foldCheck pairs fun o b => let r := fieldCheck f o.vel b.vel; (r.1, r.2.1 && b.hv, r.2.2) else (true, true, "")
      | none => (true, true, "")
    let (frcA, frcP, frcM) := match spec.frc with
      | some f => if frc == 1 && (fmt != "dlph" || vel == 1) then foldCheck pairs fun o b => let r := fieldCheck f o.frc b.frc; (r.1, r.2.1 && b.hf, r.2.2) else (true, true, "")
      | none => (true, true, "")
    -- box: the formats that store one must return all nine components
    let diagOf := fun (b : List Rat) => [b.getD 0 0, b.getD 4 0, b.getD 8 0]
    let offOf := fun (b : List Rat) => [1, 2, 3, 5, 6, 7].map fun i => b.getD i 0
    let (boxA, boxDiagP, boxM) := if spec.box == BoxKind.none then (true, true, "") else
      foldCheck pairs fun o b =>
        let expected : List Rat := if spec.box == BoxKind.diag then (List.range 9).map fun i => if i % 4 == 0 then o.box.getD i 0 else 0 else o.box
        let r1 := fieldCheck spec.boxField [expected] [b.box]
        let r2 := fieldCheck spec.boxField [diagOf o.box] [diagOf b.box]
        (r1.1, r2.2.1, r2.2.2)
    let (_, boxOffP, boxOffM) := if spec.box == BoxKind.none then (true, true, "") else
      foldCheck pairs fun o b => fieldCheck spec.boxField [offOf o.box] [offOf b.box]
    let boxP := boxDiagP && boxOffP
    -- names through the format's own topology reader
    let namesP := spec.nameChars == 0 || topStatus == "none" ||
      (topStatus == "ok" && topn == n && (names.zip topNames).all fun (a, b) => (a.take spec.nameChars).toString == (b.take (a.take spec.nameChars).toString.length).toString)
    -- nothing invented: a frame written without velocities (forces) must not come back with non-zero velocities (forces)
    let nonzero := fun (vs : List (List Rat)) => vs.any fun v => v.any fun x => x != 0
    let inventV := vel == 0 && back.any fun b => b.hv && nonzero b.vel
    let inventF := frc == 0 && back.any fun b => b.hf && nonzero b.frc
    let agree := framesOk && posA && velA && frcA && boxA && !inventV && !inventF
    let ok := framesOk && posP && velP && frcP && boxP && namesP && !inventV && !inventF
    let which := if !framesOk then s!"FRAMES written {F} read {nread}" else if inventV then "INVENTED-VELOCITIES written without velocities, read back with non-zero ones"
      else if inventF then "INVENTED-FORCES written without forces, read back with non-zero ones" else if !posP then "POS " ++ posM else if !velP then "VEL " ++ velM
      else if !frcP then "FORCE " ++ frcM else if !boxDiagP then "BOX-DIAG " ++ boxM else if !boxOffP then "BOX-OFFDIAG " ++ boxOffM else if !namesP then s!"NAMES topology reader: {topStatus.take 60} {topNames.take 3}" else ""
    pure { agree := agree, propOk := ok, tag := tag,
           msg := if !ok then s!"C08-{fmt.toUpper}-{which}" else s!"read-back differs from the codec model: frames={framesOk} pos={posA} vel={velA} force={frcA} box={boxA}" }
  match p.run args with
  | some (v, []) => v
  | _ => { agree := false, msg := "bad-line", tag := "bad" }

def handleTable (args : List String) : Verdict :=
  let p : P Verdict := do
    let n ← nat; let yerr ← nat
    let rows ← many (do let x ← rat; let y ← rat; let f ← tok; let e ← rat; pure (x, y, f, e)) n
    expect "|"
    let status ← str
    if status != "ok" then pure { agree := false, propOk := false, msg := "C08-TABLE-UNREADABLE " ++ status.take 80, tag := "table" } else
    let m ← nat; let yerr2 ← nat
    let back ← many (do let x ← rat; let y ← rat; let f ← tok; let e ← rat; pure (x, y, f, e)) m
    let near := fun (a b : Rat) => absRat (a - b) ≤ absRat a * 10 / (2 * 10 ^ 10) * (1 + 1 / 1000) + 1 / 10 ^ 300
    let xyOk := n == m && (rows.zip back).all fun ((x, y, _, _), (x', y', _, _)) => near x x' && near y y'
    let flagOk := n == m && (rows.zip back).all fun ((_, _, f, _), (_, _, f', _)) => f == f'
    let errOk := yerr == 0 || (yerr2 == 1 && n == m && (rows.zip back).all fun ((_, _, _, e), (_, _, _, e')) => near e e')
    let ok := xyOk && flagOk && errOk
    -- correspondence: values and flags; the error column is part of the property clause
    pure { agree := xyOk && flagOk, propOk := ok, tag := s!"table-{if yerr == 1 then "yerr" else "plain"}",
           msg := s!"C08-TABLE-{if !xyOk then "VALUES" else if !flagOk then "FLAGS" else "ERRCOLUMN"} rows {n}->{m} errorColumn {yerr}->{yerr2}" }
  match p.run args with
  | some (v, []) => v
  | _ => { agree := false, msg := "bad-line", tag := "bad" }

def handleMatrix (args : List String) : Verdict :=
  let p : P Verdict := do
    let r ← nat; let c ← nat
    let vals ← many rat (r * c)
    expect "|"
    let status ← str
    if status != "ok" then pure { agree := false, propOk := false, msg := "C08-MATRIX-UNREADABLE " ++ status.take 80, tag := "matrix" } else
    let r2 ← nat; let c2 ← nat
    let back ← many rat (r2 * c2)
    let near := fun (a b : Rat) => absRat (a - b) ≤ absRat a * 10 / (2 * 10 ^ 8) * (1 + 1 / 1000)
    let ok := r == r2 && c == c2 && (vals.zip back).all fun (a, b) => near a b
    pure { agree := ok, propOk := ok, tag := s!"matrix-{if r == c then "square" else "rect"}",
           msg := s!"C08-MATRIX shape {r}x{c} -> {r2}x{c2}, entries {if r == r2 && c == c2 then "differ" else "-"}" }
  match p.run args with
  | some (v, []) => v
  | _ => { agree := false, msg := "bad-line", tag := "bad" }

def handleIndex (args : List String) : Verdict :=
  let p : P Verdict := do
    let k ← nat
    let rs ← many (do let nm ← str; let a ← nat; let b ← nat; pure (nm, a, b)) k
    expect "|"
    let status ← str
    if status != "ok" then pure { agree := false, propOk := false, msg := "C08-INDEX-UNREADABLE " ++ status.take 80, tag := "index" } else
    let k2 ← nat
    let back ← many (do let nm ← str; let a ← nat; let b ← nat; let cnt ← nat; pure (nm, a, b, cnt)) k2
    let ok := k == k2 && (rs.zip back).all fun ((nm, a, b), (nm', a', b', cnt)) => nm == nm' && a == a' && b == b' && cnt == b + 1 - a
    pure { agree := ok, propOk := ok, tag := "index", msg := "C08-INDEX ranges or names changed" }
  match p.run args with
  | some (v, []) => v
  | _ => { agree := false, msg := "bad-line", tag := "bad" }

def handle (args : List String) : Verdict :=
  match args with
  | "traj" :: rest => handleTraj rest
  | "table" :: rest => handleTable rest
  | "matrix" :: rest => handleMatrix rest
  | "index" :: rest => handleIndex rest
  | ["mismatch", fmt, n, m, res] =>
    if res == "accepted" then { agree := false, propOk := false, msg := s!"C08-{fmt.toUpper}-COUNT a frame with {n} atoms was accepted for a topology with {m} beads", tag := s!"mismatch-{fmt}" }
    else { tag := s!"mismatch-{fmt}" }
  | "crash" :: fmt :: _ => { agree := false, propOk := false, msg := s!"C08-{fmt.toUpper}-CRASH the round trip crashed", tag := "crash" }
  | _ => { agree := false, msg := "bad-line", tag := "bad" }

end Driver.C08
