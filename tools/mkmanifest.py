#!/usr/bin/env python3
"""Regenerates MANIFEST.json from the table below (kept in one place so the file is always schema-valid)."""
import json, os
VERIF = os.path.dirname(os.path.dirname(os.path.abspath(__file__)))
ALL = ["C%02d" % i for i in range(1, 21)]

# property -> (technique, level text, level_note, design section)
CLAIMED = {
 "C18": ("Lean 4 proof (wildcmp = glob for all patterns/strings by loop invariant; range iteration = denoted progression by induction; "
         "index run-length round trip; print/parse round trips of ranges and index strings proved at STRING level through the tokenizer and stoi) + correspondence of the executable model with the real code (exhaustive small + random)",
         "Theorems for every pattern, string, range expression and index list about an executable model that mirrors the code loop by loop; "
         "the model is tied to the working tree on every run by running tools::wildcmp, RangeParser, xtp::IndexParser and BeadList::Generate "
         "in-process on exhaustive-small and random inputs and comparing with the model and with the declarative spec.",
         "Lean kernel + propext/Classical.choice/Quot.sound; harness and driver; std::stoi/lexical_cast literal syntax and boost::char_separator modelled.",
         "6/C18"),
 "C13": ("Lean 4 proof (bin index always in range, code wrap = Euclidean residue, nearest-centre bounds, weight conservation by induction over "
         "the stream, normalisation, legacy auto range; bridge theorems: the model's formulas are the expressions regenerated from histogramnew.cc / histogram.cc) "
         "+ exact-rational correspondence with the real classes under ASan/UBSan",
         "Theorems for every range, bin count, value and weight stream about an exact-arithmetic model of HistogramNew::Process/Normalize and "
         "the legacy automatic range; tied to the working tree by running the real classes (release-like build under ASan, so an out-of-range "
         "write aborts) on dyadic streams compared bin by bin exactly, plus generic doubles away from bin edges.",
         "Lean kernel + three standard axioms; translator tools/translate/tr_c13.py (cexpr); harness/driver; IEEE rounding not modelled (exact stream avoids it); the cast guard |bin|<9e18 is modelled.",
         "6/C13"),
 "C20": ("Lean 4 proof over tables regenerated from the source on every run (translator): generic there-and-back/transitivity algebra + "
         "`decide +kernel` over the whole finite table for non-zero entries, derived-unit quotients, CODATA/SI agreement, cross-place agreement, element data",
         "The quantifier is a finite table, enumerated exhaustively inside the kernel; unitconverter.h / constants.h / elements.cc are "
         "re-translated on every run and the translation is validated against the values the real code returns for every pair, constant and element.",
         "Lean kernel + three standard axioms; translator tools/translate/tr_c20.py; hand-typed CODATA 2018/SI/IUPAC references; 4 digits read as rel 5e-4.",
         "6/C20"),
 "C14": ("Lean 4 proof (partition of the unit interval for every tree shape by structural induction, totality, construction for every tie order; "
         "positivity/linearity/detailed balance/waiting time over the reals about the Marcus expression and the effective reorganisation energies regenerated from rate_engine.cc) + correspondence",
         "Tree theorems quantify over every tree shape, offset and lookup argument; rate theorems are about an expression re-translated from "
         "the source on every run. The models are tied to the working tree by dumping the real huffmanTree of GNode (thresholds, lookups at 0, 1, every "
         "threshold, +-1 ulp, midpoints; per-event measure compared exactly on dyadic rates) and by running Rate_Engine::Rate on generated pairs.",
         "Lean kernel + three standard axioms; translator tools/translate/tr_c14.py (cexpr); double rounding of thresholds modelled not verified; Promotetime translated, not executed.",
         "6/C14"),
 "C02": ("Lean 4 proof over exact rationals (result is a lattice image; antisymmetry incl. ties; shortest of all images for every orthorhombic box; "
         "recovery and strict uniqueness of the image shorter than half the shortest height for upper-triangular boxes; shift invariance) + exact correspondence",
         "Theorems for all points and boxes about an exact-arithmetic model that mirrors orthorhombicbox.cc / triclinicbox.cc / openbox.cc line by line; "
         "tied to the working tree through Topology::setBox + BCShortestConnection / BoxVolume / ShortestBoxSize on dyadic inputs (compared exactly, ties and "
         "points thousands of images away included) and generic doubles; predicates on the implementation output solve the lattice combination exactly.",
         "Lean kernel + three standard axioms; harness/driver; IEEE rounding and Eigen's round() modelled (std::round).",
         "6/C02"),
 "C01": ("Lean 4 proof over exact rationals (normalised weights, d/w force weights, mass sum, rejection iff a parent is beyond half the shortest height, "
         "rigid translation, periodic-image invariance on top of the C02 theorems, convex-hull bounds) + exact correspondence through the real mapping pipeline",
         "Theorems for all molecules, weights and boxes about a model of Map_Sphere::Initialize/Apply (and the pos/vel/force/mass part of the "
         "ellipsoidal map); tied to the working tree by running CGEngine::LoadMoleculeType -> CreateCGTopology -> TopologyMap::Apply on generated molecules "
         "(mapping XML parsed by the real code), each also with a parent moved by a lattice vector and with all atoms translated.",
         "Lean kernel + three standard axioms; harness/driver; IEEE rounding not modelled; csg_map file formats are covered by C08, not here.",
         "6/C01"),
 "C03": ("Lean 4 proof (grid scan = brute-force pairs as a permutation for one and two lists under Nodup+complete cell lists; membership "
         "characterisation of the brute-force list; index wrap, offset distinctness/completeness, floor adjacency, short-vector-within-one-cell by "
         "Cauchy-Schwarz, dual scaled normals; exclusion predicate) + correspondence with the real grid/simple pair and 3-body searches",
         "List-level theorems hold for every bead list and closeness predicate; geometric theorems supply their hypotheses per direction for every box, "
         "cutoff and cell count. Tied to the working tree by running NBListGrid, NBList, NBListGrid_3Body, NBList_3Body with a counting callback on generated "
         "configurations; results compared as sets with the model scan and with an independent 27-image brute force, stored vectors solved for lattice offsets.",
         "Lean kernel + three standard axioms; harness/driver; 3-D assembly of the per-direction lemmas checked per configuration; 3-body grid scan order not modelled.",
         "6/C03"),
 "C11": ("Lean 4 proof about the passes of an executable model of OptionsHandler and about the XML text layer (escape tables regenerated from XmlEscape by tools/translate/tr_c11.py: every escaped value / attribute value is read back unchanged) (accepted input is declared / has no missing REQUIRED / has only valid "
         "values, i.e. the three rejection clauses in contrapositive form for every tree; optional options absent; default injection per leaf; bool literals) + "
         "whole-tree correspondence with ProcessUserInput on every shipped calculator description",
         "Theorems quantify over every description and user tree; the model is tied to the working tree by running the real OptionsHandler on all 27 shipped "
         "xtp calculator files (links resolved by the real code) with generated user trees and comparing the complete result tree or the error kind and "
         "named option; XML print/load round trips over metacharacters and typed-access literals are judged on the implementation's output.",
         "Lean kernel + three standard axioms; harness/driver; expat and boost::lexical_cast external; list-section merge and 'nothing else' tied by correspondence only (partial).",
         "6/C11"),
 "C16": ("Lean 4 proof (the FIFO-of-edges breadth-first labelling assigns every reachable vertex its shortest-path hop count and labels nothing else, "
         "for every graph and every adjacency order, by a queue invariant; termination by a potential; explored set = reachable set; components partition; "
         "single-network detection; the structure id is invariant under every renumbering of the vertices, every insertion order and every adjacency order "
         "(dist_iso, structId_iso_invariant, structIdStr_iso_invariant)) + exhaustive correspondence on all small graphs, the real findStructureId string compared with the model",
         "Theorems cover distance labelling, component decomposition, single-network detection and the label independence of the structure id (model of "
         "findStructureId / Graph::calcId_ / GraphNode string ids; equal ids imply equal label multisets at the level of the sorted key lists). Separation at the level "
         "of the concatenated string and reduce/expand losslessness are decided by correspondence only: every labelled graph up to 5 vertices "
         "(7 in the thorough tier) plus random larger graphs are pushed through the real Graph/ReducedGraph/BeadStructure code and compared with the model and an independent spec.",
         "Lean kernel + three standard axioms; harness/driver; PARTIAL: the reduce/expand clause and string-level separation have no theorem.",
         "6/C16"),
 "C05": ("Lean 4 proof by invariants over all reachable states of a transition-system model of ProcessData / Worker::Run for every worker count, file "
         "length, --nframes budget and schedule (reads and merges in file order, reader and merge mutual exclusion, deadlock freedom, bounded steps, final "
         "state, thread-count independence) + replay of the real CsgApplication under a controlled scheduler (VOTCA_VERIF hooks) on the model "
         "+ the real csg_stat run with --nt 1 and --nt 2..8 on generated inputs, every written file compared byte for byte",
         "The ordered-mode protocol is proved for all n, F, budgets and schedules. The model is tied to the working tree by driving the real "
         "CsgApplication (stub readers) through generated and exhaustively enumerated schedules and replaying every event trace on the model's step "
         "function; mutual exclusion, frame-once, merge order and deadlock clauses are also judged on the traces themselves.",
         "Lean kernel + three standard axioms; harness scheduler and hooks (commit 7e4ea0bfd); mutexes as binary semaphores; unordered mode: no theorem, budget clause is a recorded finding; OS scheduling/memory model not modelled.",
         "6/C05"),
 "C10": ("Lean 4 proof by a 15-clause invariant over all reachable states of a transition-system model of the job-file protocol for every process count, cache "
         "size, job count and interleaving (no job executed twice, results kept), lock mode regenerated from the source, back-up/write order crash "
         "consistency; step-level theorems about a second model with job-file history, restart patterns and maxjobs (merge takes the foreign record, start test, assignment loop) "
         "+ replay of real forked ProgObserver processes under controlled interleaving and kill injection (VOTCA_VERIF hooks)",
         "assigned_once / result_kept hold for all P, c, J and all crash-free interleavings with the lock mode the translator reads from "
         "progressobserver.cc; the model is tied to the working tree by running 1..4 real processes on one job file, interleaved and killed at the hook "
         "points, replaying every trace on the model and judging assigned-once, nothing-lost, results-kept, lock exclusion and one-complete-copy on the traces.",
         "Lean kernel + three standard axioms; hooks (commits 8d4c01644, 541b02a2b); fcntl semantics as observed; restart patterns / maxjobs / history: second model Votca.C10R with step-level theorems and two whole-run invariants over every reachable state (writes only under the lock; every output / error text names a process that executed that job), the rest of the whole-run behaviour tied by replay and trace-level clauses; crash transitions judged by trace predicates only.",
         "6/C10"),
 "C12": ("Lean 4 proof of exact identities over Q about basis functions regenerated from cubicspline.cc (values at knots, continuity, derivative jump = "
         "row residual of the linear system, natural/periodic boundary rows, line exactness, superposition, Taylor identities = derivative consistency) "
         "and about linear / Akima pieces and Table::Smooth + correspondence with exact residual certificates on the implementation's coefficients",
         "Theorems hold for every grid with distinct knots, every ordinate and second-derivative vector; the numerical solve is certified per run by the exact "
         "residual of the implementation's f2. Tied to the working tree by re-translating the basis functions on every run and by evaluating the real "
         "CubicSpline / LinSpline / AkimaSpline / Table on generated grids (knots, ends, between, outside), including sums of data sets and spline fits.",
         "Lean kernel + three standard axioms; translator tr_c12.py (cexpr); Eigen QR external; csg_resample executable covered in interpolation mode; fit mode and least-squares optimality of Fit (KKT theorem in C06) not run.",
         "6/C12"),
 "C04": ("Lean 4 proof (induction over frame lists and block lists, order/field arithmetic over Q) about an executable model of the whole csg_stat pipeline whose arithmetic (merge / average / correlation recurrences, shell and unit normalisation, pair norm, target de-normalisation) is regenerated from the source on every run "
         "that composes the C01/C02/C03/C13 models + correspondence: every number written by the real csg_stat executable on complete generated inputs is "
         "compared with the model",
         "Theorems: MergeWorker / Average::Process / DoCorrelations recurrences are the frame means for every frame count; the bin of a pair distance is "
         "HistogramNew's nearest-centre bin; gmc is minus the covariance and symmetric; ideal gas gives 1 (cross) and (N-1)/N (same type); shells telescope; "
         "bonded/three-body distributions integrate to 1; block output depends on the block's frames only. Tied to the working tree by running csg_stat "
         "(topology XML, mapping, options, multi-frame .gro with varying boxes, IMC targets, blocks, selections, threads) and comparing all written files.",
         "Lean kernel + three standard axioms; harness/c04.py (decimal->double, math.cos of angular boundaries); IEEE rounding not modelled (near-boundary runs skipped, tolerance 5e-8); mean-force tables and --begin not covered.",
         "6/C04"),
 "C07": ("Lean 4 proof over the reals (Mathlib calculus: HasDerivAt of sqrt / arccos / exp compositions, field identities by field_simp+ring) about gradient "
         "formulas written once for any field and about potential-function formulas regenerated from the source on every run + correspondence with the real "
         "classes and numerical differentiation",
         "For every non-singular geometry: Grad·e is the derivative of the bond length, of the angle (beads 0, 2) and of the dihedral (beads 0, 3) along every "
         "displacement e; gradients of one interaction sum to zero; LJ126 / LJG: CalculateDF(i) and CalculateD2F(i,j) of the translated source are the partial "
         "derivatives, D2F symmetric; B-spline potential linear in its coefficients with partition of unity; spline derivative theorems of C12. Tied to the "
         "working tree by the translator and by evaluating the real IBond/IAngle/IDihedral/PotentialFunction classes on generated inputs.",
         "Lean kernel + three standard axioms; translator tr_c07.py (cexpr); witnesses for sqrt/exp (20-digit rational sqrt, libm exp); PARTIAL: middle-bead derivatives via sum-to-zero + numeric check; singular geometries excluded.",
         "6/C07"),
 "C06": ("Lean 4 proof over real matrices (Mathlib Matrix/dotProduct: orthogonal eigen-decomposition inverse, positive-definiteness, KKT sufficiency) and over "
         "lists (index-range partition) + exact per-run certificates computed by the model on the outputs of the real csg_imc_solve executable and of "
         "linalg_constrained_qrsolve",
         "tikhonov / imc_solution: the inverse csg_imc_solve builds solves (AᵀA + r)x = -Aᵀb; unique for r > 0; kkt_optimal: feasibility + stationarity imply "
         "the constrained minimum; split_partition. Tied to the working tree by running the executable on generated files (exact residual for the file's "
         "matrix, exact solution, table split), the library routine (KKT residuals) and csg_fmatch on trajectories with exactly generated forces.",
         "Lean kernel + three standard axioms; Eigen kernels external (certified per run); csg_fmatch covered at the executable level for pair and bond interactions (angles/dihedrals/three-body not generated).",
         "6/C06"),
 "C08": ("Lean 4 proof about record-level codecs (rounding to k decimals / s significant digits over Q, unit factors regenerated from constants.h, frame "
         "sequencing, count check, matrix/table text) + correspondence with the real writers and readers, judged clause by clause",
         "roundDec_err / roundDec_idem / unit_factors_cancel / field_roundtrip_dec / frames_in_order / count_mismatch_rejected / matrix_shape / "
         "table_flags_kept hold for all inputs; tied to the working tree by writing generated frame sequences with the gro, dump, xyz, pdb and DL_POLY "
         "writers, reading them back with the matching readers and comparing every position, velocity, force, box component, frame count and name with "
         "the codec model and with the printed precision; Table, imcio matrix and index files likewise.",
         "Lean kernel + three standard axioms; printf/strtod layer modelled as exact rounding (correspondence only); three recorded findings (pdb unreadable, table error column, dump off-diagonal box).",
         "6/C08"),
 "C15": ("Lean 4 proof of polynomial identities over Q (ring) about the interaction polynomials of VSiteA<9> (tensor entries regenerated from the source by a translator on every run) and the Thole tensor + correspondence with the "
         "real eeInteractor, with numerical search for the clauses that are not proved",
         "energy_exchange / energySite_exchange (all rank gatings), charges, charge_dipole, dipole_dipole, field_is_dE_dmu, thole_symmetric, "
         "thole_undamped_traceless, thole_large_separation hold for all arguments; tied to the working tree by evaluating CalcStaticEnergy_site, "
         "ApplyStaticField and FillTholeInteraction on generated sites and comparing with the model; exchange, translation, rotation and shrinking "
         "point-charge clusters judged on the implementation's output.",
         "Lean kernel + three standard axioms; witnesses for R and sqrt(3); PARTIAL: rotation invariance and the rank-2 point-charge limit searched numerically only.",
         "6/C15"),
 "C17": ("Lean 4 proof about a store model (association list with replace; induction over the store; whole-history refinement to a plain map: run_refines, name_holds_last_write) and about the matrix hyperslab index maps (Nat arithmetic) "
         "+ correspondence: generated operation sequences on the real CheckpointFile under ASan, bit-identical comparison through fresh handles",
         "read_after_write, overwrite_replaces, write_other, missing_is_error, readonly_rejects_writer, read_pure, memIdx_inj, fileIdx_inj, hyperslab_roundtrip "
         "hold for all stores, keys, values, shapes and leading dimensions; tied to the working tree by replaying write / read / reopen sequences of all value "
         "kinds and shapes (incl. empty ones and overwrites with other shapes) against the real library.",
         "Lean kernel + three standard axioms; HDF5 external (the store model is the specification it is tested against); CptTable rows not generated.",
         "6/C17"),
 "C19": ("Lean 4 proof about hand-written list models of the Perl table scripts (logarithm abstract) + correspondence: the real scripts run with perl on "
         "generated tables, every output row compared with the model",
         "ibi_pointwise, ibi_zero_when_equal, ibi_carry_flag_o, ibi_same_grid, boltzmann_invert_pointwise, linop_pointwise, linop_keeps_grid_and_flags, "
         "smooth_line_interior, smooth_keeps_grid_and_flags, integrate_step, shift_nonbonded_last_zero, combine_pointwise hold for all tables; tied to the "
         "working tree by executing the scripts of csg/share/scripts/inverse (no translator for Perl: the models are written by hand).",
         "Lean kernel + three standard axioms; Perl arithmetic/formatting external; table_extrapolate.pl, csg_call, csg_table not covered.",
         "6/C19"),
 "C09": ("Lean 4 proof of the solver's status logic only + exact per-run certificates (rational arithmetic: residuals, orthonormality, LDL^T inertia counts) on "
         "the output of the real DavidsonSolver; PARTIAL by construction",
         "success_iff_all_converged, noconv_reports, unconverged_zeroed, converged_kept hold for all residual vectors; whether a successful run returned the "
         "LOWEST eigenvalues is not a theorem of the algorithm and is decided per run by the inertia certificate on generated spectra and option combinations.",
         "Lean kernel + three standard axioms; Sylvester's law of inertia assumed (not formalised); numerics external; one recorded finding (block-decoupled matrices).",
         "6/C09"),
}
REASONS = {}

def main():
    checks = []
    for p in ALL:
        if p in CLAIMED:
            tech, text, note, ref = CLAIMED[p]
            checks.append({
                "property_id": p,
                "quick_cmd": "./check %s --tier quick" % p,
                "thorough_cmd": "./check %s --tier thorough" % p,
                "evidence_file": "evidence/%s.json" % p,
                "replay_cmd_template": "./check %s --replay {path}" % p,
                "engine": "lean-proof+correspondence",
                "level_claimed": {"category": "proof", "text": text, "design_ref": "DESIGN.md section " + ref},
                "level_note": note,
                "technique": tech,
            })
    na = [{"property_id": p, "reason": REASONS.get(p, "no check registered yet: model/theorems/harness for this property are still being built (see DESIGN.md section 6)")}
          for p in ALL if p not in CLAIMED]
    m = {
        "version": 1,
        "setup_cmd": "cd lean && lake build && cd .. && python3 tools/setup_warm.py",
        "hooks": {
            "guard": "VOTCA_VERIF",
            "enable": "checks compile /repo sources themselves (tools/vbuild.py) with -DVOTCA_VERIF; /repo/_build is never used",
            "baseline_off_cmd": "python3 tools/baseline.py",
            "source_commits": ["7e4ea0bfd", "8d4c01644", "541b02a2b"],
            "add_only": True,
        },
        "engines": [
            {"name": "lean-proof+correspondence", "path": "check", "serves_properties": sorted(CLAIMED),
             "kind_free_text": "Lean 4 theorems about executable models (lean/Votca) + C++ harness compiled from the working tree, "
                               "line protocol into the compiled Lean driver (lean/Driver)"},
        ],
        "checks": checks,
        "not_applicable": na,
        "notes": "See DESIGN.md. KNOWN_FINDINGS.txt lists recorded findings and fixed defects.",
    }
    json.dump(m, open(os.path.join(VERIF, "MANIFEST.json"), "w"), indent=1)

if __name__ == "__main__":
    main()
