#!/usr/bin/env python3
"""Rebuild /repo/_build as configured (guard VOTCA_VERIF is OFF there: it is never defined by the
repository's own build) and run the pinned test suite; exit 0 iff every test in BASELINE.stable_pass passes."""
import json, os, subprocess, sys, tempfile, xml.etree.ElementTree as ET
B = "/repo/_build"
if not os.path.isdir(B):
    subprocess.check_call(["cmake", "-G", "Ninja", "-S", "/repo", "-B", B, "-DBUILD_XTP=OFF", "-DENABLE_TESTING=ON",
                           "-DCMAKE_BUILD_TYPE=RelWithDebInfo"])
r = subprocess.run(["cmake", "--build", B, "-j16"], stdout=subprocess.PIPE, stderr=subprocess.STDOUT, text=True)
if r.returncode != 0:
    print(r.stdout[-3000:]); print("BASELINE build failed"); sys.exit(1)
out = tempfile.mktemp(suffix=".xml")
subprocess.run(["ctest", "--test-dir", B, "-j8", "--timeout", "900", "--output-junit", out],
               stdout=subprocess.DEVNULL, stderr=subprocess.DEVNULL)
passed = set()
for tc in ET.parse(out).getroot().iter("testcase"):
    if tc.get("status") == "run" and tc.find("failure") is None:
        passed.add(tc.get("name"))
os.remove(out)
want = [t.split("::")[0] for t in json.load(open("/root/.vp/BASELINE.json"))["stable_pass"]] if os.path.exists("/root/.vp/BASELINE.json") else []
missing = [t for t in want if t not in passed]
print("baseline: %d passed, %d of %d pinned tests missing" % (len(passed), len(missing), len(want)))
for m in missing[:20]:
    print("  FAILED:", m)
sys.exit(1 if missing else 0)
