#!/usr/bin/env python3
"""run every claimed check (quick tier by default) on the current tree and print one line each"""
import json, subprocess, sys, time
tier = sys.argv[1] if len(sys.argv) > 1 else "quick"
m = json.load(open("/verif/MANIFEST.json"))
bad = 0
for c in m["checks"]:
    t = time.time()
    cmd = c["quick_cmd"] if tier == "quick" else c.get("thorough_cmd", c["quick_cmd"])
    r = subprocess.run(cmd, shell=True, cwd="/verif", capture_output=True, text=True)
    last = [l for l in r.stdout.split("\n") if l.strip()][-1:] or [""]
    print("%s rc=%d %.0fs %s" % (c["property_id"], r.returncode, time.time() - t, last[0][:160]), flush=True)
    bad += r.returncode != 0
sys.exit(1 if bad else 0)
