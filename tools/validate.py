#!/usr/bin/env python3-vt
import json, sys, glob, jsonschema
S = json.load(open('/root/.vp/EVIDENCE.schema.json'))
M = json.load(open('/root/.vp/MANIFEST.schema.json'))
for f in sorted(glob.glob('/verif/evidence/*.json')):
    jsonschema.validate(json.load(open(f)), S); print('ok', f)
try:
    jsonschema.validate(json.load(open('/verif/MANIFEST.json')), M); print('ok MANIFEST')
except FileNotFoundError:
    print('no MANIFEST yet')
