#!/usr/bin/env python3
"""Content-addressed compile of /repo sources (as they are NOW) for the verification harnesses.

Nothing is taken from /repo/_build.  Every object is keyed by the SHA-256 of its
*preprocessed* translation unit plus the flags, so an edited source line (or header)
always yields a new object and nothing stale can be linked.
"""
import hashlib, os, subprocess, sys, glob, shutil
from concurrent.futures import ThreadPoolExecutor

VERIF = os.path.dirname(os.path.dirname(os.path.abspath(__file__)))
REPO = os.environ.get("VOTCA_REPO", "/repo")
CACHE = os.path.join(VERIF, ".cache")
OBJ = os.path.join(CACHE, "obj")
BIN = os.path.join(CACHE, "bin")
GEN = os.path.join(VERIF, "harness", "gen_include")
CXX = "g++"

BASE_FLAGS = ["-std=c++17", "-O1", "-g", "-ffp-contract=off", "-fopenmp", "-DVOTCA_VERIF",
              "-Wno-deprecated-declarations", "-w"]
INCLUDES = ["-I" + GEN, "-I" + REPO + "/tools/include", "-I" + REPO + "/csg/include",
            "-I" + REPO + "/xtp/include", "-I" + REPO + "/csg/src/libcsg",
            "-isystem", "/usr/include/eigen3", "-I/usr/include/hdf5/serial"]
LIBS = ["-lboost_program_options", "-lboost_system", "-lboost_filesystem", "-lboost_regex", "-lboost_timer",
        "-lexpat", "-lfftw3", "-lhdf5_cpp", "-lhdf5", "-L/usr/lib/x86_64-linux-gnu/hdf5/serial", "-lgomp", "-lpthread", "-lm"]

FLAVOURS = {
    "plain": [],
    "ndebug": ["-DNDEBUG"],
    # release-like under sanitizers: an out-of-range write aborts with a report
    "asan": ["-DNDEBUG", "-fsanitize=address,undefined", "-fno-sanitize-recover=all", "-fno-omit-frame-pointer"],
}


def groups():
    g = {}
    g["tools"] = sorted(glob.glob(REPO + "/tools/src/libtools/*.cc"))
    csg = sorted(glob.glob(REPO + "/csg/src/libcsg/*.cc"))
    io = [f for f in sorted(glob.glob(REPO + "/csg/src/libcsg/modules/io/*.cc")) if "/gmx" not in f]
    pot = sorted(glob.glob(REPO + "/csg/src/libcsg/potentialfunctions/*.cc"))
    g["csg"] = csg + io + pot
    xtp = ["davidsonsolver", "matrixfreeoperator", "progressobserver", "job", "gnode", "rate_engine",
           "eeinteractor", "staticsite", "polarsite", "checkpoint", "IndexParser", "qmpair"]
    g["xtp"] = [REPO + "/xtp/src/libxtp/%s.cc" % x for x in xtp]
    return g


def _run(cmd, **kw):
    return subprocess.run(cmd, stdout=subprocess.PIPE, stderr=subprocess.PIPE, **kw)


def compile_one(src, flags, defines=()):
    """returns (objpath, err or None)"""
    os.makedirs(OBJ, exist_ok=True)
    allflags = BASE_FLAGS + list(flags) + list(defines) + INCLUDES
    pre = _run([CXX, "-E", "-P"] + allflags + [src])
    if pre.returncode != 0:
        return None, "preprocess failed: %s\n%s" % (src, pre.stderr.decode(errors="replace")[-3000:])
    h = hashlib.sha256()
    h.update(pre.stdout)
    h.update(("\0".join(allflags)).encode())
    key = h.hexdigest()[:32]
    obj = os.path.join(OBJ, key + ".o")
    if os.path.exists(obj):
        return obj, None
    tmp = obj + ".%d.tmp" % os.getpid()
    r = _run([CXX, "-c"] + allflags + [src, "-o", tmp])
    if r.returncode != 0:
        return None, "compile failed: %s\n%s" % (src, r.stderr.decode(errors="replace")[-3000:])
    os.replace(tmp, obj)
    return obj, None


def compile_many(srcs, flavour="plain", defines=(), jobs=None):
    flags = FLAVOURS[flavour]
    jobs = jobs or min(16, os.cpu_count() or 4)
    with ThreadPoolExecutor(jobs) as ex:
        res = list(ex.map(lambda s: compile_one(s, flags, defines), srcs))
    errs = [e for (_, e) in res if e]
    if errs:
        raise BuildError("\n".join(errs))
    return [o for (o, _) in res]


class BuildError(Exception):
    pass


def build_exe(name, harness_srcs, group_names, flavour="plain", defines=(), extra_srcs=(), extra_libs=()):
    """compile harness sources + the named source groups of /repo and link them."""
    g = groups()
    srcs = list(harness_srcs) + list(extra_srcs)
    for gn in group_names:
        srcs += g[gn]
    objs = compile_many(srcs, flavour, defines)
    os.makedirs(BIN, exist_ok=True)
    h = hashlib.sha256(("\0".join(objs) + flavour).encode()).hexdigest()[:16]
    out = os.path.join(BIN, "%s-%s" % (name, h))
    if os.path.exists(out):
        return out
    flags = [f for f in FLAVOURS[flavour] if f.startswith("-fsanitize")]
    tmp = out + ".%d.tmp" % os.getpid()
    r = _run([CXX, "-o", tmp] + objs + flags + list(extra_libs) + LIBS)
    if r.returncode != 0:
        raise BuildError("link failed: %s\n%s" % (name, r.stderr.decode(errors="replace")[-4000:]))
    os.replace(tmp, out)
    return out


def prune(max_gb=6.0):
    """keep the cache bounded (oldest objects first)."""
    files = []
    for d in (OBJ, BIN):
        if os.path.isdir(d):
            for f in os.listdir(d):
                p = os.path.join(d, f)
                try:
                    st = os.stat(p)
                    files.append((st.st_atime, st.st_size, p))
                except OSError:
                    pass
    total = sum(s for _, s, _ in files)
    files.sort()
    while total > max_gb * 1e9 and files:
        _, s, p = files.pop(0)
        try:
            os.remove(p)
        except OSError:
            pass
        total -= s


if __name__ == "__main__":
    # warm the cache: compile every group in the flavours the checks use
    import time
    t = time.time()
    g = groups()
    which = sys.argv[1:] or ["tools", "csg"]
    for gn in which:
        compile_many(g[gn], "plain")
        print("warmed", gn, len(g[gn]), "objects", "%.1fs" % (time.time() - t), flush=True)
    prune()
