#!/usr/bin/env python3
"""Translator for C07: the closed-form potential functions PotentialFunctionLJ126 / PotentialFunctionLJG
(csg/src/libcsg/potentialfunctions/*.cc): CalculateF, every case of CalculateDF and of CalculateD2F -> Lean, twice from one
AST: Gen/Pot.lean (exact rationals; the one Gaussian factor exp(...) is a parameter `E`, executed by the driver) and
Gen/PotReal.lean (ℝ with Real.exp; what the derivative theorems are about).  The range guard `r >= min_ && r <= cut_off_`
is checked textually (the hand-written wrapper in Model/C07.lean applies it)."""
import os, re, sys
sys.path.insert(0, os.path.dirname(os.path.abspath(__file__)))
import cexpr
from cexpr import TranslateError

REPO = os.environ.get("VOTCA_REPO", "/repo")
VERIF = os.path.dirname(os.path.dirname(os.path.dirname(os.path.abspath(__file__))))
GUARD = "if (r >= min_ && r <= cut_off_)"


def write_if_changed(path, text):
    os.makedirs(os.path.dirname(path), exist_ok=True)
    if not os.path.exists(path) or open(path).read() != text:
        open(path, "w").write(text)


def block_after(text, pos):
    """text of the brace block starting at the first '{' at or after pos, and the index after it"""
    i = text.index("{", pos)
    depth, j = 0, i
    while j < len(text):
        if text[j] == "{":
            depth += 1
        elif text[j] == "}":
            depth -= 1
            if depth == 0:
                return text[i + 1:j], j + 1
        j += 1
    raise TranslateError("unbalanced braces")


def parse_cases(text, var):
    """`switch (var) { case k: ... }` -> {k: expr-string | nested dict}; other statements are refused"""
    m = re.search(r"switch\s*\(\s*%s\s*\)" % var, text)
    if not m:
        raise TranslateError("no switch(%s)" % var)
    body, _ = block_after(text, m.end())
    out = {}
    pos = 0
    while True:
        m = re.compile(r"\s*(?:case\s*\(?\s*(\d+)\s*\)?|default)\s*:").match(body, pos)
        if not m:
            if body[pos:].strip():
                raise TranslateError("unexpected text in switch(%s): %r" % (var, body[pos:pos + 60]))
            break
        key = int(m.group(1)) if m.group(1) is not None else "default"
        pos = m.end()
        rest = body[pos:].lstrip()
        if rest.startswith("switch"):
            inner_var = re.match(r"switch\s*\(\s*(\w+)\s*\)", rest).group(1)
            start = pos + (len(body[pos:]) - len(rest))
            blk, after = block_after(body, start)
            out[key] = parse_cases(body[start:after], inner_var)
            pos = after
        else:
            mm = re.compile(r"\s*return\s+([^;]*);").match(body, pos)
            if not mm:
                raise TranslateError("case %s of switch(%s) is not a return" % (key, var))
            out[key] = mm.group(1).strip()
            pos = mm.end()
        brk = re.compile(r"\s*break\s*;").match(body, pos)
        if brk:
            pos = brk.end()
    return out


class Em(cexpr.Emitter):
    """exp(...) in exact mode is the parameter E; every occurrence must have the same argument"""
    def __init__(self, mode, names):
        super().__init__("rat" if mode == "rat" else "real", names)
        self.exp_args = set()

    def func(self, f, args, raw):
        if f == "exp":
            self.exp_args.add(self.key(raw[0]))
            if self.mode == "rat":
                return "E"
        return super().func(f, args, raw)


def guarded_return(body, what):
    b = re.sub(r"\s+", " ", body)
    if GUARD not in b:
        raise TranslateError("%s: range guard `%s` not found" % (what, GUARD))
    return b


def translate():
    out = {"rat": [], "real": []}
    stats = {"expressions": 0}
    forms = [("lj126", "potentialfunctionlj126.cc", "PotentialFunctionLJ126", 2), ("ljg", "potentialfunctionljg.cc", "PotentialFunctionLJG", 5)]
    for (name, fn, cls, nlam) in forms:
        src = cexpr.strip_comments(open(REPO + "/csg/src/libcsg/potentialfunctions/" + fn).read())
        names = {"r": "r"}
        for k in range(nlam):
            names["lam_(%d)" % k] = "lam%d" % k
        fbody = guarded_return(cexpr.function_body(src, r"double\s+%s::CalculateF\s*\([^)]*\)\s*const\s*\{" % cls), name + " CalculateF")
        m = re.search(re.escape(GUARD) + r"\s*\{\s*return ([^;]*);\s*\}\s*else\s*\{\s*return 0\.0;\s*\}", fbody)
        if not m:
            raise TranslateError(name + ": CalculateF is no longer `guard { return e; } else { return 0.0; }`")
        fexpr = m.group(1)
        dbody = cexpr.function_body(src, r"double\s+%s::CalculateDF\s*\([^)]*\)\s*const\s*\{" % cls)
        guarded_return(dbody, name + " CalculateDF")
        dcases = parse_cases(dbody, "i")
        d2body = cexpr.function_body(src, r"double\s+%s::CalculateD2F\s*\([^)]*\)\s*const\s*\{" % cls)
        if "switch" in d2body:
            guarded_return(d2body, name + " CalculateD2F")
            d2cases = parse_cases(d2body, "i")
        else:
            if not re.fullmatch(r"\s*return 0\.0;\s*", d2body):
                raise TranslateError(name + ": CalculateD2F without switch is not `return 0.0`")
            d2cases = {}
        params = " ".join("lam%d" % k for k in range(nlam))
        for mode, ty in (("rat", "Rat"), ("real", "ℝ")):
            em = Em(mode, names)
            nc = "noncomputable " if mode == "real" else ""
            extra = " E" if mode == "rat" else ""
            L = []
            L.append("/-- `%s::CalculateF` inside the range guard -/\n%sdef %sF (%s r%s : %s) : %s :=\n  %s\n" % (cls, nc, name, params, extra, ty, ty, em.emit(cexpr.parse(fexpr))))
            stats["expressions"] += 1
            rows = []
            for k in sorted(x for x in dcases if x != "default"):
                rows.append("  | %d => %s" % (k, em.emit(cexpr.parse(dcases[k]))))
                stats["expressions"] += 1
            L.append("/-- `%s::CalculateDF(i, r)` inside the range guard -/\n%sdef %sDF (i : Nat) (%s r%s : %s) : %s :=\n  match i with\n%s\n  | _ => 0\n" % (cls, nc, name, params, extra, ty, ty, "\n".join(rows)))
            rows = []
            for i in sorted(x for x in d2cases if x != "default"):
                v = d2cases[i]
                if isinstance(v, str):
                    if em.emit(cexpr.parse(v)) not in ("(0 : Rat)", "(0 : ℝ)"):
                        rows.append("  | %d, _ => %s" % (i, em.emit(cexpr.parse(v))))
                    continue
                for j in sorted(x for x in v if x != "default"):
                    e = em.emit(cexpr.parse(v[j]))
                    stats["expressions"] += 1
                    if e not in ("(0 : Rat)", "(0 : ℝ)"):
                        rows.append("  | %d, %d => %s" % (i, j, e))
                if "default" in v and em.emit(cexpr.parse(v["default"])) not in ("(0 : Rat)", "(0 : ℝ)"):
                    raise TranslateError("non-zero default in CalculateD2F")
            L.append("/-- `%s::CalculateD2F(i, j, r)` inside the range guard -/\n%sdef %sD2F (i j : Nat) (%s r%s : %s) : %s :=\n  match i, j with\n%s\n  | _, _ => 0\n" % (cls, nc, name, params, extra, ty, ty, "\n".join(rows)))
            if len(em.exp_args) > 1:
                raise TranslateError(name + ": more than one distinct exp(...) argument: " + "; ".join(sorted(em.exp_args)))
            if mode == "rat" and em.exp_args:
                arg = sorted(em.exp_args)[0]
                want = "((((-1.0)*lam_(3))*(r-lam_(4)))*(r-lam_(4)))"
                if arg.replace(" ", "") != want:
                    raise TranslateError(name + ": the Gaussian argument is now %s (the harness computes E for %s)" % (arg, want))
            out[mode].append("\n".join(L))
    hdr = "/-! GENERATED by tools/translate/tr_c07.py from csg/src/libcsg/potentialfunctions/potentialfunction{lj126,ljg}.cc — do not edit -/\n"
    write_if_changed(os.path.join(VERIF, "lean", "Votca", "Gen", "Pot.lean"),
                     hdr + "namespace Votca.Gen.Pot\nset_option linter.unusedVariables false\n\n" + "\n".join(out["rat"]) + "\nend Votca.Gen.Pot\n")
    write_if_changed(os.path.join(VERIF, "lean", "Votca", "Gen", "PotReal.lean"),
                     "import Mathlib.Analysis.SpecialFunctions.Exp\n" + hdr + "namespace Votca.Gen.PotReal\nset_option linter.unusedVariables false\n\n" + "\n".join(out["real"]) + "\nend Votca.Gen.PotReal\n")
    return stats


if __name__ == "__main__":
    print(translate())
