#!/usr/bin/env python3
"""Translator for C15: the interaction-tensor entries of eeInteractor::VSiteA (xtp/src/libxtp/eeinteractor.cc) -> Lean.

The assignments to Qq(i), dQ.col(k) (with the component updates `.x() += …`), QQ(i, j) and the scalar `temp` are executed
symbolically, in source order, on expression ASTs (cexpr); the trailing `Qq.tail<4>() *= sqr3` and
`dQ.rightCols<4>() *= sqr3` scalings are applied; the result is Gen/EE.lean: rational functions g_i, c_k{x,y,z}, m_ij of
(x y z f s) with r.ab() = a*b, afac = a * f^4 and sqr3 = s.  How these entries are combined with the moments (the block
structure, signs and powers of 1/R) is checked textually; the hand-written model composes them accordingly."""
import os, re, sys
sys.path.insert(0, os.path.dirname(os.path.abspath(__file__)))
import cexpr
from cexpr import TranslateError

REPO = os.environ.get("VOTCA_REPO", "/repo")
VERIF = os.path.dirname(os.path.dirname(os.path.dirname(os.path.abspath(__file__))))


def write_if_changed(path, text):
    os.makedirs(os.path.dirname(path), exist_ok=True)
    if not os.path.exists(path) or open(path).read() != text:
        open(path, "w").write(text)


def subst(e, env):
    """replace identifiers bound in env (the scalar `temp`) by their expression"""
    t = e[0]
    if t == "id" and e[1] in env:
        return env[e[1]]
    if t == "num" or t == "id":
        return e
    if t == "neg":
        return ("neg", subst(e[1], env))
    if t == "bin":
        return ("bin", e[1], subst(e[2], env), subst(e[3], env))
    if t == "call":
        return ("call", subst(e[1], env), [subst(a, env) for a in e[2]])
    if t == "member":
        return ("member", subst(e[1], env), e[2])
    raise TranslateError("subst: %r" % (e,))


def translate():
    src = cexpr.strip_comments(open(REPO + "/xtp/src/libxtp/eeinteractor.cc").read())
    body = cexpr.function_body(src, r"Eigen::Matrix<double,\s*N,\s*1>\s+eeInteractor::VSiteA\s*\([^)]*\)\s*const\s*\{")
    flat = re.sub(r"\s+", " ", body)
    # --- structure needles: how the entries are used (the hand model mirrors exactly these lines)
    needles = [
        "V(0) = fac1 * siteB.getCharge();",
        "fac2 * a * siteB.getCharge();",
        "fac2 * a.dot(siteB.Q().segment<3>(1));",
        "-3 * a * (a.transpose() * siteB.Q().segment<3>(1));",
        "result += siteB.Q().segment<3>(1);",
        "result *= fac3;",
        "Qq.tail<4>() *= sqr3;",
        "V.template segment<5>(4) = fac3 * Qq.transpose() * siteB.getCharge();",
        "V(0) += fac3 * Qq * siteB.Q().segment<5>(4);",
        "const Eigen::Vector3d afac = a * fac4;",
        "dQ.rightCols<4>() *= sqr3;",
        "V.template segment<5>(4) += dQ.transpose() * siteB.Q().segment<3>(1);",
        "V.template segment<3>(1) -= dQ * siteB.Q().segment<5>(4);",
        "fac5 * QQ.selfadjointView<Eigen::Lower>() * siteB.Q().segment<5>(4);",
        "const double sqr3 = std::sqrt(3);",
        "const double fac2 = std::pow(fac1, 2);", "const double fac3 = std::pow(fac1, 3);",
        "const double fac4 = std::pow(fac1, 4);", "const double fac5 = std::pow(fac1, 5);",
    ]
    for n in needles:
        if n not in flat:
            raise TranslateError("VSiteA no longer contains `%s`: the hand-written composition in Model/C15.lean must be revisited" % n)
    # --- the rotation of the moments (StaticSite::Rotate and the two conversions): Lemmas/C15Field.lean (thetaK, rotQ) mirrors exactly these
    ss = re.sub(r"\s+", " ", cexpr.strip_comments(open(REPO + "/xtp/src/libxtp/staticsite.cc").read()))
    rot_needles = [
        "theta(0, 0) = 0.5 * (-MP(4) + sqr3 * MP(7));", "theta(1, 1) = 0.5 * (-MP(4) - sqr3 * MP(7));", "theta(2, 2) = MP(4);",
        "theta(0, 1) = theta(1, 0) = 0.5 * sqr3 * MP(8);", "theta(0, 2) = theta(2, 0) = 0.5 * sqr3 * MP(5);", "theta(1, 2) = theta(2, 1) = 0.5 * sqr3 * MP(6);",
        "quadrupole_polar(0) = quad_cart(2, 2);", "quadrupole_polar(1) = (2. / sqr3) * quad_cart(0, 2);", "quadrupole_polar(2) = (2. / sqr3) * quad_cart(1, 2);",
        "quadrupole_polar(3) = (1. / sqr3) * (quad_cart(0, 0) - quad_cart(1, 1));", "quadrupole_polar(4) = (2. / sqr3) * quad_cart(0, 1);",
        "const Eigen::Vector3d temp = R * Q_.segment<3>(1);", "Eigen::Matrix3d rotated = R * cartesianquad * R.transpose();",
        "Q_.segment<5>(4) = CalculateSphericalMultipole(rotated);",
    ]
    for n in rot_needles:
        if n not in ss:
            raise TranslateError("staticsite.cc no longer contains `%s`: thetaK / rotQ in Lemmas/C15Field.lean must be revisited" % n)
    # --- symbolic execution of the entry assignments, in source order
    stmts = [s.strip() for s in flat.split(";")]
    Qq, dQ, QQ, env = {}, {}, {}, {}
    comp = {"x": 0, "y": 1, "z": 2}
    for s in stmts:
        m = re.fullmatch(r"Qq\((\d)\) = (.*)", s)
        if m:
            Qq[int(m.group(1))] = subst(cexpr.parse(m.group(2)), env)
            continue
        m = re.fullmatch(r"dQ\.col\((\d)\) = (.*) \* afac", s)
        if m:
            e = subst(cexpr.parse(m.group(2)), env)
            dQ[int(m.group(1))] = [("bin", "*", e, ("id", "a" + c)) for c in "xyz"]
            continue
        m = re.fullmatch(r"dQ\.col\((\d)\)\.([xyz])\(\) ([+-])= (.*)", s)
        if m:
            k, c, op, rhs = int(m.group(1)), comp[m.group(2)], m.group(3), m.group(4)
            rhs = rhs.replace("afac.x()", "ax").replace("afac.y()", "ay").replace("afac.z()", "az")
            dQ[k][c] = ("bin", op, dQ[k][c], subst(cexpr.parse(rhs), env))
            continue
        m = re.fullmatch(r"QQ\((\d), (\d)\) = (.*)", s)
        if m:
            QQ[(int(m.group(1)), int(m.group(2)))] = subst(cexpr.parse(m.group(3)), env)
            continue
        m = re.fullmatch(r"(?:double )?temp = (.*)", s)
        if m:
            env["temp"] = subst(cexpr.parse(m.group(1)), env)
            continue
        if re.match(r"(Qq|dQ|QQ)\b", s) and not re.match(r"(Qq\.tail<4>\(\) \*= sqr3|dQ\.rightCols<4>\(\) \*= sqr3|Eigen::Matrix)", s):
            if "=" in s:
                raise TranslateError("tensor statement not understood: %r" % s[:100])
    if sorted(Qq) != [0, 1, 2, 3, 4] or sorted(dQ) != [0, 1, 2, 3, 4]:
        raise TranslateError("Qq / dQ entries missing: %r %r" % (sorted(Qq), sorted(dQ)))
    want = {(i, j) for i in range(5) for j in range(i + 1)}
    if set(QQ) != want:
        raise TranslateError("QQ lower triangle incomplete or entries above the diagonal: %r" % sorted(set(QQ) ^ want))
    # scalings by sqr3
    s3 = ("id", "sqr3")
    for i in range(1, 5):
        Qq[i] = ("bin", "*", s3, Qq[i])
        dQ[i] = [("bin", "*", s3, e) for e in dQ[i]]
    names = {"r.xx()": "(x*x)", "r.yy()": "(y*y)", "r.zz()": "(z*z)", "r.xy()": "(x*y)", "r.xz()": "(x*z)", "r.yz()": "(y*z)",
             "sqr3": "s", "ax": "(x*f4)", "ay": "(y*f4)", "az": "(z*f4)"}
    em = cexpr.Emitter("rat", names)
    L = ["/-! GENERATED by tools/translate/tr_c15.py from xtp/src/libxtp/eeinteractor.cc (eeInteractor::VSiteA) — do not edit -/",
         "namespace Votca.Gen.EE", "set_option linter.unusedVariables false", ""]
    args = "(x y z f s : Rat)"
    for i in range(5):
        L.append("/-- `Qq(%d)` after the sqrt(3) scaling -/\ndef g%d %s : Rat :=\n  %s\n" % (i, i, args, em.emit(Qq[i])))
    for k in range(5):
        for c, cn in enumerate("xyz"):
            L.append("/-- `dQ(%s, %d)` after the sqrt(3) scaling; `afac = a·f⁴` -/\ndef c%d%s %s : Rat :=\n  let f4 := f*f*f*f\n  %s\n" % (cn, k, k, cn, args, em.emit(dQ[k][c])))
    for (i, j) in sorted(QQ):
        L.append("/-- `QQ(%d, %d)` -/\ndef m%d%d %s : Rat :=\n  %s\n" % (i, j, i, j, args, em.emit(QQ[(i, j)])))
    L.append("end Votca.Gen.EE")
    write_if_changed(os.path.join(VERIF, "lean", "Votca", "Gen", "EE.lean"), "\n".join(L) + "\n")
    # the same entries over an arbitrary field (theorems that need `s * s = 3` are stated there: no rational number has that square)
    emk = cexpr.Emitter("field", names)
    K = ["import Mathlib.Algebra.Field.Basic",
         "/-! GENERATED by tools/translate/tr_c15.py from xtp/src/libxtp/eeinteractor.cc (eeInteractor::VSiteA) — do not edit.",
         "The entries of Gen/EE.lean over an arbitrary field `K` (Mathlib side: not imported by the driver). -/",
         "namespace Votca.Gen.EEK", "set_option linter.unusedVariables false", "variable {K : Type} [Field K]", ""]
    argsK = "(x y z f s : K)"
    for i in range(5):
        K.append("def g%d %s : K :=\n  %s\n" % (i, argsK, emk.emit(Qq[i])))
    for k in range(5):
        for c, cn in enumerate("xyz"):
            K.append("def c%d%s %s : K :=\n  let f4 := f*f*f*f\n  %s\n" % (k, cn, argsK, emk.emit(dQ[k][c])))
    for (i, j) in sorted(QQ):
        K.append("def m%d%d %s : K :=\n  %s\n" % (i, j, argsK, emk.emit(QQ[(i, j)])))
    K.append("end Votca.Gen.EEK")
    write_if_changed(os.path.join(VERIF, "lean", "Votca", "Gen", "EEK.lean"), "\n".join(K) + "\n")
    return {"entries": 5 + 15 + 15, "structure_statements_checked": len(needles) + len(rot_needles)}


if __name__ == "__main__":
    print(translate())
