#!/usr/bin/env python3
"""Translator for C04: the arithmetic of csg_stat that the theorems are about is regenerated from the source:
  * Imc::MergeWorker          avg <- ((n - 1) * avg + h) / n
  * Average<T>::Process       av  <- av * n / (n + 1) + v / (n + 1)
  * Imc::DoCorrelations       M   <- ((n - 1) * M + a * b) / n
  * Imc::WriteDist            x1, x2, the shell expression V * norm * h / (4/3 * pi * (x2^3 - x1^3)), and the unit-integral form
  * Imc::BeginEvaluate        norm_ = 2/(N1*N2) resp. 1/(N1*N2)
  * Imc::CalcDeltaS           the de-normalised target
into Gen/Stat.lean (exact rationals; M_PI is the parameter `p`).  Casts to double are dropped (the model is over Q)."""
import os, re, sys
sys.path.insert(0, os.path.dirname(os.path.abspath(__file__)))
import cexpr
from cexpr import TranslateError

REPO = os.environ.get("VOTCA_REPO", "/repo")
VERIF = os.path.dirname(os.path.dirname(os.path.dirname(os.path.abspath(__file__))))


def write_if_changed(path, text):
    os.makedirs(os.path.dirname(path), exist_ok=True)
    if not os.path.exists(path) or open(path).read() != text:
        open(path, "w").write(text)


def need(pattern, text, what):
    m = re.search(pattern, text, flags=re.S)
    if not m:
        raise TranslateError("C04 translator: %s not found" % what)
    return m


def clean(e):
    e = re.sub(r"\(double\)\s*", "", e)
    e = re.sub(r"double\(([^()]*)\)", r"(\1)", e)
    return e


def emit(expr, names):
    return cexpr.Emitter("rat", names).emit(cexpr.parse(clean(expr)))


def translate():
    imc = re.sub(r"\s+", " ", cexpr.strip_comments(open(REPO + "/csg/src/tools/csg_stat_imc.cc").read()))
    avg = re.sub(r"\s+", " ", cexpr.strip_comments(open(REPO + "/tools/include/votca/tools/average.h").read()))
    out = []
    # MergeWorker
    m = need(r"i->average_\.data\(\)\.y\(\) = (\(\(\(double\)nframes_ - 1\.0\) \* i->average_\.data\(\)\.y\(\) \+ worker->current_hists_\[i->index_\]\.data\(\)\.y\(\)\) / \(double\)nframes_);", imc, "MergeWorker update")
    e = m.group(1).replace("i->average_.data().y()", "avg").replace("worker->current_hists_[i->index_].data().y()", "h")
    out.append("/-- `Imc::MergeWorker`: the new average from the old one, the frame's histogram value and the new frame count -/\n"
               "def mergeExpr (nframes_ avg h : Rat) : Rat :=\n  " + emit(e, {"nframes_": "nframes_", "avg": "avg", "h": "h"}))
    need(r"\+\+nframes_; avg_vol_\.Process\(worker->cur_vol_\);", imc, "frame counter incremented before the update")
    # Average::Process
    m = need(r"av_ = (av_ \* \(double\)n_ / \(double\)\(n_ \+ 1\) \+ value / \(double\)\(n_ \+ 1\));\s*n_\+\+;", avg, "Average::Process")
    out.append("/-- `Average<T>::Process`: the new average from the old one, the number of values so far and the new value -/\n"
               "def avgExpr (n_ av_ value : Rat) : Rat :=\n  " + emit(m.group(1), {"n_": "n_", "av_": "av_", "value": "value"}))
    # DoCorrelations
    m = need(r"M = (\(\(\(\(double\)nframes_ - 1\.0\) \* M\) \+ a \* b\.transpose\(\)\) / \(double\)nframes_);", imc, "DoCorrelations update")
    e = m.group(1).replace("b.transpose()", "b")
    out.append("/-- `Imc::DoCorrelations`, entrywise -/\ndef corrExpr (nframes_ M a b : Rat) : Rat :=\n  " + emit(e, {"nframes_": "nframes_", "M": "M", "a": "a", "b": "b"}))
    # WriteDist shell normalisation
    m = need(r"double x1 = dist\.x\(\)\[i\] - (0\.5 \* interaction->step_); double x2 = x1 \+ (interaction->step_); if \(x1 < 0\) \{ dist\.y\(\)\[i\] = 0; \} else \{ dist\.y\(\)\[i\] = (avg_vol_\.getAvg\(\) \* interaction->norm_ \* dist\.y\(\)\[i\] / \(4\. / 3\. \* M_PI \* \(x2 \* x2 \* x2 - x1 \* x1 \* x1\)\));", imc, "WriteDist shell normalisation")
    names = {"interaction->step_": "step", "x": "x", "x1": "x1", "x2": "x2", "V": "V", "norm": "norm", "h": "h", "M_PI": "p"}
    out.append("/-- `WriteDist`: lower edge of the shell of the bin centred on `x` -/\ndef shellX1 (x step : Rat) : Rat :=\n  (x - %s)" % emit(m.group(1).replace("interaction->step_", "step"), {"step": "step"}))
    out.append("def shellX2 (x1 step : Rat) : Rat :=\n  (x1 + %s)" % emit(m.group(2).replace("interaction->step_", "step"), {"step": "step"}))
    e = m.group(3).replace("avg_vol_.getAvg()", "V").replace("interaction->norm_", "norm").replace("dist.y()[i]", "h")
    e = e.replace("4. / 3.", "4.0 / 3.0")
    out.append("/-- `WriteDist`: the written value; `p` stands for M_PI -/\ndef rdfExpr (V norm h x1 x2 p : Rat) : Rat :=\n  " + emit(e, names))
    # unit-integral normalisation (bonded and three-body)
    m = need(r"double norm = dist\.y\(\)\.cwiseAbs\(\)\.sum\(\); if \(norm > 0\) \{ dist\.y\(\) = (interaction->norm_ \* dist\.y\(\) / \(norm \* interaction->step_\)); \}", imc, "unit-integral normalisation")
    e = m.group(1).replace("interaction->norm_", "nrm").replace("dist.y()", "h").replace("interaction->step_", "step")
    out.append("/-- bonded / three-body distributions: `norm_ · h / (Σ|h| · step)` -/\ndef unitExpr (nrm h norm step : Rat) : Rat :=\n  " + emit(e, {"nrm": "nrm", "h": "h", "norm": "norm", "step": "step"}))
    if len(re.findall(r"interaction->norm_ \* dist\.y\(\) / \(norm \* interaction->step_\)", imc)) != 2:
        raise TranslateError("C04 translator: the bonded and the three-body branch no longer use the same normalisation")
    # BeginEvaluate pair normalisation
    m = need(r"i\.norm_ = (2\. / \(double\)\(beads1\.size\(\) \* beads2\.size\(\)\)); \} else \{ i\.norm_ = (1\. / \(double\)\(beads1\.size\(\) \* beads2\.size\(\)\));", imc, "pair normalisation")
    for nm, g in (("normSame", m.group(1)), ("normCross", m.group(2))):
        e = g.replace("beads1.size()", "n1").replace("beads2.size()", "n2").replace("2.", "2.0", 1).replace("1.", "1.0", 1)
        out.append("def %s (n1 n2 : Rat) : Rat :=\n  %s" % (nm, emit(e, {"n1": "n1", "n2": "n2"})))
    # CalcDeltaS
    m = need(r"target\.y\(\)\[i\] = (1\. / \(avg_vol_\.getAvg\(\) \* interaction->norm_\) \* target\.y\(\)\[i\] \* \(4\. / 3\. \* M_PI \* \(x2 \* x2 \* x2 - x1 \* x1 \* x1\)\));", imc, "CalcDeltaS de-normalisation")
    e = m.group(1).replace("avg_vol_.getAvg()", "V").replace("interaction->norm_", "norm").replace("target.y()[i]", "t").replace("1. /", "1.0 /").replace("4. / 3.", "4.0 / 3.0")
    out.append("/-- `CalcDeltaS`: the de-normalised target; `p` stands for M_PI -/\ndef targetExpr (V norm t x1 x2 p : Rat) : Rat :=\n  " + emit(e, {"V": "V", "norm": "norm", "t": "t", "x1": "x1", "x2": "x2", "M_PI": "p"}))
    need(r"if \(x1 < 0\) \{ x1 = x2 = 0; \}", imc, "CalcDeltaS: bins reaching below zero have no shell")
    need(r"dS = interaction->average_\.data\(\)\.y\(\) - target\.y\(\);", imc, "dS = average - target")
    need(r"M = -\(M - a \* b\.transpose\(\)\); gmc\.block\(j, i, n2, n1\) = M\.transpose\(\)\.eval\(\);", imc, "gmc = -(corr - a b^T), mirrored")
    text = ("/-! GENERATED by tools/translate/tr_c04.py from csg/src/tools/csg_stat_imc.cc and tools/include/votca/tools/average.h — do not edit -/\n"
            "namespace Votca.Gen.Stat\nset_option linter.unusedVariables false\n\n" + "\n\n".join(out) + "\n\nend Votca.Gen.Stat\n")
    write_if_changed(os.path.join(VERIF, "lean", "Votca", "Gen", "Stat.lean"), text)
    return {"expressions": len(out), "statements_checked": 6}


if __name__ == "__main__":
    print(translate())
