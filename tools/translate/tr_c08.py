#!/usr/bin/env python3
"""Translator for C08: the facts the record codecs depend on — printf precisions, significant digits and unit factors — are
read from the writer/reader sources and written to Gen/Formats.lean; Model/C08.lean builds its format table from them.
Every fact is found by a pattern anchored in the statement that uses it; a statement that has moved or changed shape is a
broken tie (TranslateError), never a silent default."""
import os, re, sys
sys.path.insert(0, os.path.dirname(os.path.abspath(__file__)))
import cexpr
from cexpr import TranslateError

REPO = os.environ.get("VOTCA_REPO", "/repo")
VERIF = os.path.dirname(os.path.dirname(os.path.dirname(os.path.abspath(__file__))))
IO = REPO + "/csg/src/libcsg/modules/io/"
FACTORS = {"nm2ang": "Votca.Gen.Units.nm2ang", "ang2nm": "Votca.Gen.Units.ang2nm", "kj2kcal": "Votca.Gen.Units.kj2kcal", "kcal2kj": "Votca.Gen.Units.kcal2kj"}


def write_if_changed(path, text):
    os.makedirs(os.path.dirname(path), exist_ok=True)
    if not os.path.exists(path) or open(path).read() != text:
        open(path, "w").write(text)


def need(pattern, text, what):
    m = re.search(pattern, text, flags=re.S)
    if not m:
        raise TranslateError("C08 translator: %s not found (pattern %r)" % (what, pattern))
    return m


def factor_expr(s):
    """`conv::a * conv::b / conv::c` (any namespace prefix) -> Lean product of generated unit constants"""
    s = re.sub(r"(?:tools::)?conv::", "", s.strip())
    toks = re.findall(r"[*/]|\w+", s)
    out, op = "", "*"
    for t in toks:
        if t in "*/":
            op = t
            continue
        if t not in FACTORS:
            raise TranslateError("C08 translator: unknown unit factor %r" % t)
        out = FACTORS[t] if not out else "(%s %s %s)" % (out, op, FACTORS[t])
    return out or "1"


def translate():
    facts = {}
    flat = lambda p: re.sub(r"\s+", " ", cexpr.strip_comments(open(p).read()))
    gro = flat(IO + "growriter.cc")
    facts["groPosDec"] = int(need(r"Index pr = (\d+);", gro, "gro position precision").group(1))
    need(r"vpr = pr \+ 1;", gro, "gro velocity precision = position precision + 1")
    facts["groVelDec"] = facts["groPosDec"] + 1
    facts["groBoxDec"] = int(need(r"if \(pr < (\d+)\) \{ pr = \1; \}", gro, "gro box precision").group(1))
    need(r'fprintf\(out_, format, box\(0, 0\), box\(1, 1\), box\(2, 2\), box\(1, 0\), box\(2, 0\), box\(0, 1\), box\(2, 1\), box\(0, 2\), box\(1, 2\)\);', gro, "gro nine-value box line")
    dumpw = flat(IO + "lammpsdumpwriter.cc")
    m = need(r'fprintf\(out_, " %f %f %f", bead\.getPos\(\)\.x\(\) \* ([\w:]+),', dumpw, "dump position format")
    facts["dumpDec"] = 6            # plain %f
    pos_w = factor_expr(m.group(1))
    m = need(r'fprintf\(out_, " %f %f %f", bead\.getVel\(\)\.x\(\) \* ([\w:]+),', dumpw, "dump velocity format")
    vel_w = factor_expr(m.group(1))
    m = need(r'fprintf\(out_, " %f %f %f", bead\.getF\(\)\.x\(\) \* ([\w: */]+?),', dumpw, "dump force format")
    frc_w = factor_expr(m.group(1))
    m = need(r'fprintf\(out_, "0 %f\\n0 %f\\n0 %f\\n", box\(0, 0\) \* ([\w:]+),', dumpw, "dump box bounds")
    box_w = factor_expr(m.group(1))
    dumpr = flat(IO + "lammpsdumpreader.cc")
    pos_r = factor_expr(need(r"b->Pos\(\)\.x\(\) = stod\(\*itok\) \* ([\w:]+);", dumpr, "dump position read factor").group(1))
    vel_r = factor_expr(need(r"b->Vel\(\)\.x\(\) = stod\(\*itok\) \* ([\w:]+);", dumpr, "dump velocity read factor").group(1))
    frc_r = factor_expr(need(r"b->F\(\)\.x\(\) = stod\(\*itok\) \* ([\w: */]+?);", dumpr, "dump force read factor").group(1))
    box_r = factor_expr(need(r"top\.setBox\(m \* ([\w:]+)\);", dumpr, "dump box read factor").group(1))
    xyzw = flat(REPO + "/csg/include/votca/csg/xyzwriter.h")
    facts["xyzDec"] = int(need(r'boost::format fmter\("%1\$s ?%2\$10\.(\d)f ?%3\$10\.\1f ?%4\$10\.\1f\\n"\);', xyzw, "xyz position format").group(1))
    xyz_w = factor_expr(need(r"Eigen::Vector3d getPos\(Bead ?& ?bead\) \{ return bead\.Pos\(\) \* ([\w:]+); \}", xyzw, "xyz write factor for beads").group(1))
    xyzr = flat(REPO + "/csg/include/votca/csg/xyzreader.h")
    xyz_r = factor_expr(need(r"Eigen::Vector3d posnm = pos \* ([\w:]+);", xyzr, "xyz read factor for topologies").group(1))
    dlw = flat(IO + "dlpolytrajectorywriter.cc")
    facts["dlpolySig"] = int(need(r"resetiosflags\(std::ios::fixed\) << setprecision\((\d+)\) << setw\(20\) << bead->getPos\(\)\.x\(\) \* scale", dlw, "dlpoly position precision").group(1))
    dl_scale = need(r"const double scale = ([0-9.]+);", dlw, "dlpoly write scale").group(1)
    dlr = flat(IO + "dlpolytrajectoryreader.cc")
    dl_rscale = factor_expr(need(r"const double scale = ([\w:]+);", dlr, "dlpoly read scale").group(1))
    tab = flat(REPO + "/tools/src/libtools/table.cc")
    facts["tableSig"] = int(need(r"out\.precision\((\d+)\);", tab, "table precision").group(1))
    imc = flat(REPO + "/csg/src/libcsg/imcio.cc")
    facts["matrixSig"] = int(need(r"out_A << setprecision\((\d+)\);", imc, "matrix precision").group(1))
    need(r"Eigen::RowMajor>>\( result\.data\(\), numrows, numcols\)", imc, "row-major matrix read")
    from fractions import Fraction
    L = ["import Votca.Gen.Units",
         "/-! GENERATED by tools/translate/tr_c08.py from the trajectory writers/readers, table.cc and imcio.cc — do not edit -/",
         "namespace Votca.Gen.Formats", ""]
    for k in sorted(facts):
        L.append("def %s : Nat := %d" % (k, facts[k]))
    def frac(s):
        f = Fraction(s)
        return "((%d : Rat) / %d)" % (f.numerator, f.denominator)
    L += ["", "def dumpPosW : Rat := " + pos_w, "def dumpPosR : Rat := " + pos_r, "def dumpVelW : Rat := " + vel_w, "def dumpVelR : Rat := " + vel_r,
          "def dumpFrcW : Rat := " + frc_w, "def dumpFrcR : Rat := " + frc_r, "def dumpBoxW : Rat := " + box_w, "def dumpBoxR : Rat := " + box_r,
          "def xyzW : Rat := " + xyz_w, "def xyzR : Rat := " + xyz_r, "def dlpolyW : Rat := " + frac(dl_scale), "def dlpolyR : Rat := " + dl_rscale,
          "", "end Votca.Gen.Formats"]
    write_if_changed(os.path.join(VERIF, "lean", "Votca", "Gen", "Formats.lean"), "\n".join(L) + "\n")
    return {"facts": len(facts) + 12}


if __name__ == "__main__":
    print(translate())
