#!/usr/bin/env python3
"""A small C/C++ arithmetic-expression translator: text -> AST -> Lean (Float version for the executable
driver, Real or Rat version for the theorems).  Supports + - * / unary minus, parentheses, decimal literals,
identifiers (with :: qualification), member access a.b(), calls f(x, y), indexing a(i) / a[i].  Anything else raises
TranslateError (a broken tie)."""
import re
from fractions import Fraction


class TranslateError(Exception):
    pass


TOK = re.compile(r"\s*(?:(?P<num>(?:[0-9]+\.?[0-9]*|\.[0-9]+)(?:[eE][+-]?[0-9]+)?)|(?P<id>[A-Za-z_][A-Za-z_0-9]*(?:::[A-Za-z_][A-Za-z_0-9]*)*)|(?P<op>[-+*/(),\[\].]))")


def tokenize(s):
    out, i = [], 0
    s = s.strip()
    while i < len(s):
        m = TOK.match(s, i)
        if not m or m.end() == i:
            raise TranslateError("cannot tokenise %r at %d" % (s, i))
        i = m.end()
        if m.group("num") is not None:
            out.append(("num", m.group("num")))
        elif m.group("id") is not None:
            out.append(("id", m.group("id")))
        else:
            out.append(("op", m.group("op")))
    return out


def parse(s):
    toks = tokenize(s)
    pos = [0]

    def peek():
        return toks[pos[0]] if pos[0] < len(toks) else (None, None)

    def eat(kind=None, val=None):
        k, v = peek()
        if k is None or (kind and k != kind) or (val and v != val):
            raise TranslateError("expected %s %s in %r at token %d" % (kind, val, s, pos[0]))
        pos[0] += 1
        return v

    def primary():
        k, v = peek()
        if k == "num":
            eat()
            return ("num", v)
        if k == "op" and v == "(":
            eat()
            e = expr()
            eat("op", ")")
            return postfix(e)
        if k == "id":
            eat()
            return postfix(("id", v))
        raise TranslateError("unexpected token %r in %r" % (v, s))

    def postfix(e):
        while True:
            k, v = peek()
            if k == "op" and v == "(":
                eat()
                args = []
                if peek() != ("op", ")"):
                    args.append(expr())
                    while peek() == ("op", ","):
                        eat()
                        args.append(expr())
                eat("op", ")")
                e = ("call", e, args)
            elif k == "op" and v == "[":
                eat()
                a = expr()
                eat("op", "]")
                e = ("call", e, [a])
            elif k == "op" and v == ".":
                eat()
                name = eat("id")
                e = ("member", e, name)
            else:
                return e

    def unary():
        k, v = peek()
        if k == "op" and v == "-":
            eat()
            return ("neg", unary())
        if k == "op" and v == "+":
            eat()
            return unary()
        return primary()

    def term():
        e = unary()
        while peek() in (("op", "*"), ("op", "/")):
            op = eat()
            e = ("bin", op, e, unary())
        return e

    def expr():
        e = term()
        while peek() in (("op", "+"), ("op", "-")):
            op = eat()
            e = ("bin", op, e, term())
        return e

    e = expr()
    if pos[0] != len(toks):
        raise TranslateError("trailing tokens in %r" % s)
    return e


FUNCS = {"sqrt": 1, "exp": 1, "log": 1, "pow": 2, "fabs": 1, "abs": 1, "cos": 1, "sin": 1, "acos": 1, "floor": 1}


class Emitter:
    """mode: 'float' | 'real' | 'rat'.  names: map C name (identifier, `a.b()`, `a(i)` rendered canonically) -> Lean name"""

    def __init__(self, mode, names, consts=None):
        self.mode, self.names, self.consts = mode, names, consts or {}

    def key(self, e):
        if e[0] == "id":
            return e[1]
        if e[0] == "member":
            return self.key(e[1]) + "." + e[2]
        if e[0] == "call":
            return self.key(e[1]) + "(" + ",".join(self.key(a) for a in e[2]) + ")"
        if e[0] == "num":
            return e[1]
        if e[0] == "bin":
            return "(" + self.key(e[2]) + e[1] + self.key(e[3]) + ")"
        if e[0] == "neg":
            return "(-" + self.key(e[1]) + ")"
        raise TranslateError("no canonical name for %r" % (e,))

    def num(self, v):
        f = Fraction(v.split("e")[0].split("E")[0]) * Fraction(10) ** int((re.split("[eE]", v) + ["0"])[1])
        if self.mode == "float":
            return "(%s : Float)" % (v if ("." in v or "e" in v.lower()) else v + ".0")
        ty = "ℝ" if self.mode == "real" else "K" if self.mode == "field" else "Rat"
        if f.denominator == 1:
            return "(%d : %s)" % (f.numerator, ty)
        return "((%d : %s) / %d)" % (f.numerator, ty, f.denominator)

    def emit(self, e):
        t = e[0]
        if t == "num":
            return self.num(e[1])
        if t == "neg":
            return "(-%s)" % self.emit(e[1])
        if t == "bin":
            return "(%s %s %s)" % (self.emit(e[2]), e[1], self.emit(e[3]))
        if t == "call" and e[1][0] == "id":
            f = e[1][1].split("::")[-1]
            if f in FUNCS and e[1][1] in (f, "std::" + f):
                if len(e[2]) != FUNCS[f]:
                    raise TranslateError("arity of " + f)
                args = [self.emit(a) for a in e[2]]
                return self.func(f, args, e[2])
        # a named quantity (variable, member call, indexed member)
        k = self.key(e)
        if k in self.names:
            return self.names[k]
        if k in self.consts:
            return self.consts[k]
        raise TranslateError("unknown quantity %r" % k)

    def func(self, f, args, raw):
        m = self.mode
        if f == "pow":
            # integer exponents only (what the potential functions use)
            if raw[1][0] == "num" and re.fullmatch(r"[0-9]+(\.0*)?", raw[1][1]):
                n = int(float(raw[1][1]))
                return "(%s ^ %d)" % (args[0], n) if m != "float" else "(Float.pow %s %d.0)" % (args[0], n)
            if raw[1][0] == "neg" and raw[1][1][0] == "num" and re.fullmatch(r"[0-9]+(\.0*)?", raw[1][1][1]):
                n = int(float(raw[1][1][1]))
                return "(1 / (%s ^ %d))" % (args[0], n) if m != "float" else "(Float.pow %s (-%d.0))" % (args[0], n)
            raise TranslateError("pow with non-literal exponent")
        if m == "float":
            table = {"sqrt": "Float.sqrt", "exp": "Float.exp", "log": "Float.log", "fabs": "Float.abs", "abs": "Float.abs",
                     "cos": "Float.cos", "sin": "Float.sin", "acos": "Float.acos", "floor": "Float.floor"}
            return "(%s %s)" % (table[f], args[0])
        if m == "real":
            table = {"sqrt": "Real.sqrt", "exp": "Real.exp", "log": "Real.log", "fabs": "abs", "abs": "abs",
                     "cos": "Real.cos", "sin": "Real.sin", "acos": "Real.arccos"}
            if f not in table:
                raise TranslateError(f + " has no real counterpart here")
            return "(%s %s)" % (table[f], args[0])
        raise TranslateError("function %s not available in exact rational mode" % f)


def strip_comments(s):
    s = re.sub(r"/\*.*?\*/", " ", s, flags=re.S)
    return re.sub(r"//[^\n]*", " ", s)


def function_body(src, signature_regex):
    """text between the braces of the function whose header matches signature_regex"""
    m = re.search(signature_regex, src)
    if not m:
        raise TranslateError("function not found: " + signature_regex)
    i = src.index("{", m.end() - 1) if src[m.end() - 1] != "{" else m.end() - 1
    depth, j = 0, i
    while j < len(src):
        if src[j] == "{":
            depth += 1
        elif src[j] == "}":
            depth -= 1
            if depth == 0:
                return src[i + 1:j]
        j += 1
    raise TranslateError("unbalanced braces")


def straight_line(body):
    """a body made of `double x = e;` / `const double x = e;` declarations and one `return e;` -> ([(x, e)], e)"""
    stmts = [s.strip() for s in body.split(";") if s.strip()]
    lets, ret = [], None
    for s in stmts:
        m = re.fullmatch(r"(?:const\s+)?double\s+(\w+)\s*=\s*(.*)", s, flags=re.S)
        if m and ret is None:
            lets.append((m.group(1), m.group(2)))
            continue
        m = re.fullmatch(r"return\s+(.*)", s, flags=re.S)
        if m and ret is None:
            ret = m.group(1)
            continue
        raise TranslateError("statement not understood: %r" % s[:80])
    if ret is None:
        raise TranslateError("no return statement")
    return lets, ret
