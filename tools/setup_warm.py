#!/usr/bin/env python3
"""setup: compile every harness once so that the object cache is warm (checks rebuild only what changed)."""
import importlib, os, sys, glob, time
VERIF = os.path.dirname(os.path.dirname(os.path.abspath(__file__)))
sys.path.insert(0, os.path.join(VERIF, "tools")); sys.path.insert(0, os.path.join(VERIF, "checks"))
t = time.time()
for f in sorted(glob.glob(os.path.join(VERIF, "checks", "c*.py"))):
    m = importlib.import_module(os.path.basename(f)[:-3])
    if hasattr(m, "build"):
        try:
            m.build(); print("built harness for", m.PROP, "%.0fs" % (time.time() - t), flush=True)
        except Exception as e:
            print("harness for", m.PROP, "failed to build:", str(e)[-500:], flush=True)
