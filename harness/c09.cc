// C09 correspondence harness: DavidsonSolver::solve of the real library on generated real symmetric matrices with prescribed
// spectra (clustered, degenerate, negative, widely spread, diagonally dominant, block-decoupled) for every correction /
// update-size / tolerance setting and search-space limits that force restarts; matrix entries are dyadic rationals so that the
// driver can certify the returned pairs in exact arithmetic.  Hamiltonian mode on BSE block matrices.
#include "common.h"
#include <sstream>
#include <votca/xtp/davidsonsolver.h>
#include <votca/xtp/logger.h>
using namespace votca;
using namespace votca::xtp;

static double dy(Rng &r, int lo, int hi, double den) { return (double)r.range(lo, hi) / den; }

// random orthogonal matrix from Householder reflections with dyadic vectors (not exactly orthogonal after rounding; the
// matrix A = Q D Q^T is symmetrised and rounded to multiples of 2^-20, whatever spectrum results is the test matrix)
static Eigen::MatrixXd rotation(Rng &r, int n) {
  Eigen::MatrixXd Q = Eigen::MatrixXd::Identity(n, n);
  for (int k = 0; k < 3; k++) {
    Eigen::VectorXd v(n);
    for (int i = 0; i < n; i++) v(i) = r.unit() - 0.5;
    v.normalize();
    Q = Q - 2 * (Q * v) * v.transpose();
  }
  return Q;
}

static Eigen::MatrixXd round_sym(const Eigen::MatrixXd &A) {
  Eigen::MatrixXd B = 0.5 * (A + A.transpose());
  for (Index i = 0; i < B.rows(); i++)
    for (Index j = 0; j < B.cols(); j++) B(i, j) = std::round(B(i, j) * 1048576.0) / 1048576.0;
  for (Index i = 0; i < B.rows(); i++)
    for (Index j = 0; j < i; j++) B(i, j) = B(j, i);
  return B;
}

static bool g_round6 = true;
static Eigen::MatrixXd gen_matrix(Rng &r, int n, int kind) {
  Eigen::VectorXd d(n);
  switch (kind) {
    case 0:   // diagonally dominant: increasing diagonal, small off-diagonal noise
    {
      Eigen::MatrixXd A = Eigen::MatrixXd::Zero(n, n);
      for (int i = 0; i < n; i++) A(i, i) = 1.0 + i + r.unit() * 0.5;
      for (int i = 0; i < n; i++) for (int j = i + 1; j < n; j++) A(i, j) = A(j, i) = 0.02 * (r.unit() - 0.5);
      return round_sym(A);
    }
    case 1: for (int i = 0; i < n; i++) d(i) = 1.0 + 0.01 * (i % 3) + (i / 3);            break;   // clusters of three
    case 2: for (int i = 0; i < n; i++) d(i) = (double)(i / 2);                            break;   // exactly degenerate pairs
    case 3: for (int i = 0; i < n; i++) d(i) = -5.0 + i * 0.7 + r.unit() * 0.1;            break;   // negative part
    case 4: for (int i = 0; i < n; i++) d(i) = std::pow(10.0, -3.0 + 6.0 * i / (n - 1));   break;   // six orders of magnitude
    case 6:   // the family of the upstream unit test: sqrt(i) on the diagonal, 0.01/(i-j)^2 off it
    {
      Eigen::MatrixXd A = Eigen::MatrixXd::Zero(n, n);
      for (int i = 0; i < n; i++) A(i, i) = std::sqrt((double)(i + 1));
      for (int i = 0; i < n; i++) for (int j = i + 1; j < n; j++) A(i, j) = A(j, i) = 0.01 / ((double)(i - j) * (double)(i - j));
      return g_round6 ? round_sym(A) : A;      // unrounded: the doubles of the upstream test themselves (exact rationals all the same)
    }
    default:  // block decoupled: the lowest eigenvalue lives in a block whose diagonal entries are large
    {
      Eigen::MatrixXd A = Eigen::MatrixXd::Zero(n, n);
      for (int i = 0; i < n - 2; i++) A(i, i) = 1.0 + i;
      A(n - 2, n - 2) = 50; A(n - 1, n - 1) = 50; A(n - 2, n - 1) = A(n - 1, n - 2) = 60;     // eigenvalues -10 and 110
      return round_sym(A);
    }
  }
  Eigen::MatrixXd Q = rotation(r, n);
  // keep the matrix diagonally "readable": mix with a diagonal part so that the initial guess is meaningful
  Eigen::MatrixXd A = Q * d.asDiagonal() * Q.transpose();
  return round_sym(A);
}

static void emit(std::ostringstream &o, const Eigen::MatrixXd &M) {
  o << " " << M.rows() << " " << M.cols();
  for (Index i = 0; i < M.rows(); i++) for (Index j = 0; j < M.cols(); j++) o << " " << dexact(M(i, j));
}

static void symm_run(Rng &r, int n, int kind, int neigen, int ci, int ui, int ti, int itmax, int mss);
static void symm_solve(const Eigen::MatrixXd &A, int kind, int neigen, int ci, int ui, int ti, int itmax, int mss);

static void symm_case(Rng &r) {
  int n = 4 + (int)r.below(20);
  int kind = (int)r.below(7);
  if (kind == 6) kind = 5; else if (kind == 5) kind = 6;   // 5 = block decoupled (the `default` branch), 6 = upstream family
  if (kind == 5 && n < 6) n = 6;
  if (kind == 6) { n = 12 + (int)r.below(20); }
  int neigen = 1 + (int)r.below(std::max(1, n / 4));
  // many roots: the correction vectors of one iteration become nearly dependent (the regime of the upstream test: 10 roots and more)
  if (kind == 6 && r.coin(2, 3)) neigen = n / 4 + (int)r.below(std::max(1, n / 4));
  static const char *corr[] = {"DPR", "OLSEN"};
  static const char *upd[] = {"min", "safe", "max"};
  static const char *tols[] = {"loose", "normal", "strict", "lapack"};
  static const double tolv[] = {1e-3, 1e-4, 1e-5, 1e-9};
  int ci = (int)r.below(2), ui = (int)r.below(3), ti = (int)r.below(4);
  int itmax = r.coin(1, 5) ? 2 + (int)r.below(4) : 50;
  int mss = r.coin(1, 3) ? neigen * 2 + (int)r.below(4) : 0;     // tight search space forces restarts
  g_round6 = r.coin();
  symm_run(r, n, kind, neigen, ci, ui, ti, itmax, mss);
}

static void symm_run(Rng &r, int n, int kind, int neigen, int ci, int ui, int ti, int itmax, int mss) {
  static const char *corr[] = {"DPR", "OLSEN"};
  static const char *upd[] = {"min", "safe", "max"};
  static const char *tols[] = {"loose", "normal", "strict", "lapack"};
  static const double tolv[] = {1e-3, 1e-4, 1e-5, 1e-9};
  Eigen::MatrixXd A = gen_matrix(r, n, kind);
  symm_solve(A, kind, neigen, ci, ui, ti, itmax, mss);
}

static void symm_solve(const Eigen::MatrixXd &A, int kind, int neigen, int ci, int ui, int ti, int itmax, int mss) {
  static const char *corr[] = {"DPR", "OLSEN"};
  static const char *upd[] = {"min", "safe", "max"};
  static const char *tols[] = {"loose", "normal", "strict", "lapack"};
  static const double tolv[] = {1e-3, 1e-4, 1e-5, 1e-9};
  Logger log;
  log.setReportLevel(Log::error);
  log.setMultithreading(false);
  std::ostringstream o;
  o << "C09 symm " << kind << " " << neigen << " " << corr[ci] << " " << upd[ui] << " " << dexact(tolv[ti]) << " " << itmax << " " << mss;
  emit(o, A);
  try {
    DavidsonSolver DS(log);
    DS.set_correction(corr[ci]);
    DS.set_size_update(upd[ui]);
    DS.set_tolerance(tols[ti]);
    DS.set_iter_max(itmax);
    if (mss) DS.set_max_search_space(mss);
    // one case in three (a fixed function of the case, so that a replay does the same) uses the solver object for the second time: it
    // has first solved the same matrix with rows and columns in reverse order (small diagonal entries at the other end); nothing of
    // that solve may influence the one that is judged
    if ((A.rows() + neigen + ci + ui + ti) % 3 == 0) {
      Eigen::MatrixXd P = A.reverse();
      try { DS.solve(P, neigen); } catch (std::exception &) {}
    }
    DS.solve(A, neigen);
    o << " " << (DS.info() == Eigen::ComputationInfo::Success ? "success" : "noconv") << " " << DS.num_iterations();
    Eigen::VectorXd ev = DS.eigenvalues();
    Eigen::MatrixXd V = DS.eigenvectors();
    o << " " << ev.size();
    for (Index i = 0; i < ev.size(); i++) o << " " << dexact(ev(i));
    emit(o, V);
  } catch (std::exception &e) {
    o << " error 0 0 0 0"; fprintf(stderr, "EXC %s\n", e.what());
  }
  printf("%s\n", o.str().c_str());
}

static void ham_case(Rng &r) {
  // H = [[A, B], [-B, -A]] with A + B and A - B positive definite
  int m = 3 + (int)r.below(8);
  int neigen = 1 + (int)r.below(std::max(1, m / 3));
  Eigen::MatrixXd A = Eigen::MatrixXd::Zero(m, m), B = Eigen::MatrixXd::Zero(m, m);
  for (int i = 0; i < m; i++) { A(i, i) = 2.0 + i + r.unit(); }
  for (int i = 0; i < m; i++) for (int j = i + 1; j < m; j++) { A(i, j) = A(j, i) = 0.05 * (r.unit() - 0.5); B(i, j) = B(j, i) = 0.05 * (r.unit() - 0.5); }
  for (int i = 0; i < m; i++) B(i, i) = 0.1 * (r.unit() - 0.5);
  A = round_sym(A); B = round_sym(B);
  Eigen::MatrixXd H(2 * m, 2 * m);
  H << A, B, -B, -A;
  Logger log;
  log.setReportLevel(Log::error);
  std::ostringstream o;
  o << "C09 ham " << neigen;
  emit(o, A); emit(o, B);
  try {
    DavidsonSolver DS(log);
    DS.set_matrix_type("HAM");
    DS.set_tolerance("strict");
    DS.solve(H, neigen);
    o << " " << (DS.info() == Eigen::ComputationInfo::Success ? "success" : "noconv");
    Eigen::VectorXd ev = DS.eigenvalues();
    Eigen::MatrixXd V = DS.eigenvectors();
    o << " " << ev.size();
    for (Index i = 0; i < ev.size(); i++) o << " " << dexact(ev(i));
    emit(o, V);
  } catch (std::exception &e) {
    o << " error 0 0 0";
  }
  printf("%s\n", o.str().c_str());
}

int main(int argc, char **argv) {
  std::string mode = argc > 1 ? argv[1] : "rand";
  long N = argc > 2 ? atol(argv[2]) : 100;
  Rng r(env_seed() * 7919 + 9);
  if (mode == "replay") {
    std::string line;
    while (std::getline(std::cin, line)) {
      if (line.rfind("C09", 0) != 0) continue;
      std::vector<std::string> t = split_ws(line);
      if (t.size() > 12 && t[1] == "symm") {
        // re-run the solver on the matrix and the options of the line
        int kind = atoi(t[2].c_str()), neigen = atoi(t[3].c_str());
        int ci = t[4] == "OLSEN" ? 1 : 0, ui = t[5] == "min" ? 0 : t[5] == "safe" ? 1 : 2;
        double tol = dparse(t[6], t[7]);
        int ti = tol > 5e-4 ? 0 : tol > 5e-5 ? 1 : tol > 5e-7 ? 2 : 3;
        int itmax = atoi(t[8].c_str()), mss = atoi(t[9].c_str());
        int n = atoi(t[10].c_str());
        if ((int)t.size() < 12 + 2 * n * n) continue;
        Eigen::MatrixXd A(n, n);
        for (int i = 0; i < n; i++) for (int j = 0; j < n; j++) A(i, j) = dparse(t[12 + 2 * (i * n + j)], t[13 + 2 * (i * n + j)]);
        symm_solve(A, kind, neigen, ci, ui, ti, itmax, mss);
      } else printf("%s\n", line.c_str());     // Hamiltonian lines: re-judged as recorded
    }
    return 0;
  }
  if (mode == "grid") {
    // deterministic grid on the family of the upstream unit test (sqrt(i) diagonal, 0.01/(i-j)^2 coupling): many roots, every update size
    g_round6 = false;
    for (int n : {16, 20, 24, 28}) for (int ne = n / 4; ne <= n / 2; ne += 2) for (int ui = 0; ui < 3; ui++) for (int ti = 1; ti < 4; ti += 2) for (int ci = 0; ci < (n < 28 ? 1 : 2); ci++)
      symm_run(r, n, 6, ne, ci, ui, ti, 50, 0);
    return 0;
  }
  for (long i = 0; i < N; i++) { if (r.coin(1, 6)) ham_case(r); else symm_case(r); }
  return 0;
}
