// C10 harness: P forked processes share one job file through the REAL ProgObserver; the parent interleaves them at the
// VOTCA_VERIF hook points of the synchronisation (lock request / held / merged / back-up written / about to write /
// written / released / each record written by WRITE_JOBS) and at job execution, may kill a process at any of these points,
// and records what every process executed, the final job file and whether file and back-up parse at every crash point.
#include "common.h"
#include <boost/program_options.hpp>
#include <fstream>
#include <map>
#include <poll.h>
#include <signal.h>
#include <sstream>
#include <sys/stat.h>
#include <sys/wait.h>
#include <unistd.h>
#include <votca/xtp/job.h>
#include <votca/xtp/progressobserver.h>
#include <votca/xtp/qmthread.h>
using namespace votca;
using namespace votca::xtp;
namespace po = boost::program_options;

static int g_up = -1, g_down = -1;   // child side pipes
static int g_me = -1;

static void child_event(const std::string &s) {
  std::string m = s + "\n";
  if (write(g_up, m.data(), m.size()) < 0) _exit(7);
  char c;
  if (read(g_down, &c, 1) != 1) _exit(8);   // go token (or parent gone)
}

extern "C" void votca_verif_event(int kind, const void *, long arg) {
  if (g_up < 0) return;
  if (kind >= 10 && kind <= 21 && kind != 17) child_event("H " + std::to_string(kind) + " " + std::to_string(arg));
}

static void child_main(int me, const std::string &dir, int cache, int maxjobs, const std::string &restart = "", bool failRule = false) {
  g_me = me;
  std::streambuf *old = std::cout.rdbuf();
  std::ostringstream sink;
  std::cout.rdbuf(sink.rdbuf());
  try {
    ProgObserver<std::vector<Job>> obs;
    po::options_description desc;
    desc.add_options()("file", po::value<std::string>())("cache", po::value<Index>())("maxjobs", po::value<Index>())("restart", po::value<std::string>());
    std::vector<std::string> av = {"--file", dir + "/lock", "--cache", std::to_string(cache), "--maxjobs", std::to_string(maxjobs), "--restart", restart};
    po::variables_map vm;
    po::store(po::command_line_parser(av).options(desc).run(), vm);
    po::notify(vm);
    obs.InitCmdLineOpts(vm);
    QMThread master(true), worker(true);
    master.getLogger().setReportLevel(Log::error);
    worker.getLogger().setReportLevel(Log::error);
    obs.InitFromProgFile(dir + "/jobs.xml", master);
    while (true) {
      Job *job = obs.RequestNextJob(worker);
      if (!job) break;
      child_event("X " + std::to_string(job->getId()));
      Job::JobResult res;
      tools::Property out;
      if (failRule && (me + job->getId()) % 4 == 0) {
        res.setStatus(Job::FAILED);
        // every other failing job reports an error text with XML metacharacters (exception texts name templates and paths):
        // the job file must stay parseable and the text must come back as it was reported
        res.setError("f" + std::to_string(me) + (job->getId() % 2 ? "<a&b>" : ""));
      } else {
        res.setStatus(Job::COMPLETE);
        out.add("output", "").add("by", std::to_string(me));
        res.setOutput(out);
      }
      obs.ReportJobDone(*job, res, worker);
    }
    obs.SyncWithProgFile(master);
    child_event("F 0");
  } catch (std::exception &e) {
    std::cout.rdbuf(old);
    std::string m = std::string("E ") + hexs(e.what()) + "\n";
    if (write(g_up, m.data(), m.size())) {}
    _exit(5);
  }
  std::cout.rdbuf(old);
  _exit(0);
}

struct Child { pid_t pid; int up, down; bool alive, waiting; std::string pending; std::string buf; };

static bool parses(const std::string &file, int J) {
  try {
    std::vector<Job> jobs = LOAD_JOBS(file);
    return (int)jobs.size() == J;
  } catch (...) { return false; }
}

static std::string file_state(const std::string &file) {
  std::ostringstream o;
  try {
    std::vector<Job> jobs = LOAD_JOBS(file);
    o << jobs.size();
    for (Job &j : jobs) {
      std::string by = "-";
      if (j.hasOutput()) { try { by = j.getOutput().get("by").as<std::string>(); } catch (...) {} }
      o << " " << j.getId() << ":" << j.getStatusStr() << ":" << by;
    }
  } catch (...) { o << "UNPARSEABLE"; }
  return o.str();
}

// restart scenarios: history kind per job, restart pattern / cache / maxjobs per process
static const char *PATTERNS[] = {"", "host(old:1)", "stat(FAILED)", "host(old:2) stat(FAILED)", "host(old:1,old:2)"};
struct RunCfg { int P, J, cache, maxjobs; int crashProc, crashAt; bool restart = false; bool failRule = false;
                std::vector<int> pcache, pmax, ppat, hist;
                // directed interleaving (bystander scenario): process 0 runs until it is about to execute its first job (it then holds the
                // file's records of that moment in memory), process 1 runs alone until it exits, the rest is random
                bool directed = false; };

static std::string file_state_full(const std::string &file, const std::vector<pid_t> &pids) {
  std::ostringstream o;
  try {
    std::vector<Job> jobs = LOAD_JOBS(file);
    o << jobs.size();
    for (Job &j : jobs) {
      std::string by = "-", err = "-", host = "-";
      if (j.hasOutput()) { try { by = j.getOutput().get("by").as<std::string>(); } catch (...) { by = "?"; } }
      if (j.hasError()) {
        err = j.getError();
        const std::string meta = "<a&b>";
        if (j.getId() % 2 && err.size() > meta.size() && err.compare(err.size() - meta.size(), meta.size(), meta) == 0) err.erase(err.size() - meta.size());
        for (char &ch : err) if (ch == ' ' || ch == ';' || ch == '\t' || ch == '\n') ch = '_';
      }
      if (j.hasHost()) {
        host = j.getHost();
        if (host.rfind("old:", 0) != 0) {
          size_t c = host.rfind(':');
          long pid = c == std::string::npos ? -1 : atol(host.c_str() + c + 1);
          host = "?";
          for (size_t k = 0; k < pids.size(); k++) if (pids[k] == pid) host = "p" + std::to_string(k);
        }
      }
      o << " " << j.getId() << ";" << j.getStatusStr() << ";" << host << ";" << by << ";" << err;
    }
  } catch (...) { o << "UNPARSEABLE"; }
  return o.str();
}


// one complete run; choices drive the interleaving
static std::string run_once(const RunCfg &c, Rng &r) {
  char tmpl[] = "/tmp/votca_verif_c10_XXXXXX";
  std::string dir = mkdtemp(tmpl);
  {
    std::ofstream f(dir + "/jobs.xml");
    f << "<jobs>\n";
    for (int j = 0; j < c.J; j++) {
      int k = c.restart ? c.hist[j] : 0;
      f << "\t<job>\n\t\t<id>" << j << "</id>\n\t\t<tag>t" << j << "</tag>\n\t\t<input>x</input>\n";
      if (k == 0) f << "\t\t<status>AVAILABLE</status>\n";
      else if (k == 1) f << "\t\t<status>COMPLETE</status>\n\t\t<host>old:1</host>\n\t\t<time>00:00:01</time>\n\t\t<output><by>old1</by></output>\n";
      else if (k == 2) f << "\t\t<status>COMPLETE</status>\n\t\t<host>old:2</host>\n\t\t<time>00:00:02</time>\n\t\t<output><by>old2</by></output>\n";
      else if (k == 3) f << "\t\t<status>FAILED</status>\n\t\t<host>old:1</host>\n\t\t<time>00:00:03</time>\n\t\t<error>eold1</error>\n";
      else f << "\t\t<status>ASSIGNED</status>\n\t\t<host>old:2</host>\n\t\t<time>00:00:04</time>\n";
      f << "\t</job>\n";
    }
    f << "</jobs>\n";
    std::ofstream l(dir + "/lock");
  }
  std::vector<Child> ch(c.P);
  for (int i = 0; i < c.P; i++) {
    int up[2], down[2];
    if (pipe(up) || pipe(down)) return "C10 run pipe-error";
    pid_t pid = fork();
    if (pid == 0) {
      close(up[0]); close(down[1]);
      g_up = up[1]; g_down = down[0];
      for (int k = 0; k < i; k++) { close(ch[k].up); close(ch[k].down); }
      if (c.restart) child_main(i, dir, c.pcache[i], c.pmax[i], PATTERNS[c.ppat[i]], c.failRule);
      child_main(i, dir, c.cache, c.maxjobs);
    }
    close(up[1]); close(down[0]);
    ch[i] = Child{pid, up[0], down[1], true, false, "", ""};
  }
  std::ostringstream trace;
  int events = 0, crashSeen = 0;
  bool crashed = false;
  std::string crashInfo = "-";
  auto readable = [&](int timeout_ms) {
    std::vector<pollfd> fds;
    std::vector<int> idx;
    for (int i = 0; i < c.P; i++) if (ch[i].alive && !ch[i].waiting) { fds.push_back({ch[i].up, POLLIN, 0}); idx.push_back(i); }
    if (fds.empty()) return;
    int rc = poll(fds.data(), fds.size(), timeout_ms);
    if (rc <= 0) return;
    for (size_t k = 0; k < fds.size(); k++) {
      if (!(fds[k].revents & (POLLIN | POLLHUP))) continue;
      Child &x = ch[idx[k]];
      char buf[512];
      ssize_t n = read(x.up, buf, sizeof buf);
      if (n <= 0) { x.alive = false; int st; waitpid(x.pid, &st, 0); trace << " " << idx[k] << ":exit" << (WIFEXITED(st) ? WEXITSTATUS(st) : 99); continue; }
      x.buf.append(buf, n);
      size_t nl;
      while ((nl = x.buf.find('\n')) != std::string::npos) {
        std::string line = x.buf.substr(0, nl);
        x.buf.erase(0, nl + 1);
        if (line[0] == 'E') { trace << " " << idx[k] << ":exc:" << line.substr(2); continue; }
        x.pending = line; x.waiting = true;
      }
    }
  };
  int idle_rounds = 0;
  int last_pick = -1;
  static const double sticks[] = {0.0, 0.8, 0.95, 0.99, 0.99};
  double stick = sticks[r.below(5)];
  // one run in four procrastinates writers: a process that sits inside WRITE_JOBS (events 20 / 21) is advanced only when nobody else
  // can move, so that a write stays half done for as long as the protocol lets the other processes run
  bool stallWriters = r.coin(1, 4);
  int phase = (c.directed && c.P >= 2) ? 1 : 0, phase_wait = 0;
  if (phase) stallWriters = false;
  while (true) {
    bool any = false;
    for (auto &x : ch) any = any || x.alive;
    if (!any) break;
    // collect messages: wait long only when nobody is ready to be advanced
    std::vector<int> ready;
    readable(0);
    for (int i = 0; i < c.P; i++) if (ch[i].alive && ch[i].waiting) ready.push_back(i);
    if (ready.empty()) {
      readable(50);
      for (int i = 0; i < c.P; i++) if (ch[i].alive && ch[i].waiting) ready.push_back(i);
      if (ready.empty()) { if (++idle_rounds > 200) { trace << " STUCK"; break; } continue; }
    }
    idle_rounds = 0;
    // give processes blocked in the kernel lock a moment to report, so that the choice is among all runnable ones
    readable(2);
    ready.clear();
    for (int i = 0; i < c.P; i++) if (ch[i].alive && ch[i].waiting) ready.push_back(i);
    if (stallWriters) {
      std::vector<int> others;
      for (int q : ready) if (ch[q].pending.rfind("H 20", 0) != 0 && ch[q].pending.rfind("H 21", 0) != 0) others.push_back(q);
      if (!others.empty()) ready = others;
    }
    int pick = ready[r.below(ready.size())];
    if (phase == 1) {
      bool has0 = false;
      for (int q : ready) has0 = has0 || q == 0;
      if (!ch[0].alive) phase = 0;
      else if (!has0) { if (++phase_wait > 400) phase = 0; else continue; }
      else if (ch[0].pending[0] == 'X') { phase = 2; phase_wait = 0; }
      else { pick = 0; phase_wait = 0; }
    }
    if (phase == 2) {
      bool has1 = false;
      for (int q : ready) has1 = has1 || q == 1;
      if (!ch[1].alive) phase = 0;
      else if (!has1) { if (++phase_wait > 400) phase = 0; else { readable(5); continue; } }
      else { pick = 1; phase_wait = 0; }
    }
    // sticky scheduling: long bursts of one process (a whole synchronisation, or several, while the others stand still)
    if (phase == 0 && last_pick >= 0 && r.unit() < stick) for (int q : ready) if (q == last_pick) pick = q;
    last_pick = pick;
    Child &x = ch[pick];
    std::vector<std::string> t = split_ws(x.pending);
    std::string tag = t[0] == "H" ? "h" + t[1] + (t[1] == "21" ? "." + t[2] : "") : t[0] == "X" ? "x" + t[1] : "fin";
    trace << " " << pick << ":" << tag;
    events++;
    // crash injection: kill the chosen process at its crashAt-th hook point
    if (!crashed && pick == c.crashProc && t[0] == "H") {
      if (crashSeen == c.crashAt) {
        kill(x.pid, SIGKILL);
        int st; waitpid(x.pid, &st, 0);
        x.alive = false; x.waiting = false;
        crashed = true;
        bool f = parses(dir + "/jobs.xml", c.J), b = parses(dir + "/jobs.xml~", c.J);
        crashInfo = tag + ":" + (f ? "file-ok" : "file-torn") + ":" + (b ? "backup-ok" : "backup-torn");
        trace << " " << pick << ":KILLED";
        continue;
      }
      crashSeen++;
    }
    x.waiting = false;
    char go = 'g';
    if (write(x.down, &go, 1) != 1) { x.alive = false; }
  }
  for (auto &x : ch) { if (x.alive) { kill(x.pid, SIGKILL); int st; waitpid(x.pid, &st, 0); } close(x.up); close(x.down); }
  std::ostringstream o;
  if (c.restart) {
    std::vector<pid_t> pids;
    for (auto &x : ch) pids.push_back(x.pid);
    o << "C10 rrun " << c.P << " " << c.J << " " << (c.failRule ? 1 : 0) << " |";
    for (int i = 0; i < c.P; i++) o << " " << c.pcache[i] << " " << c.pmax[i] << " " << c.ppat[i];
    o << " |";
    for (int j = 0; j < c.J; j++) o << " " << c.hist[j];
    o << " |" << trace.str() << " | " << file_state_full(dir + "/jobs.xml", pids);
    std::string cmd = "rm -rf " + dir;
    if (system(cmd.c_str())) {}
    return o.str();
  }
  o << "C10 run " << c.P << " " << c.J << " " << c.cache << " " << c.maxjobs << " " << c.crashProc << " " << c.crashAt << " |" << trace.str()
    << " | " << crashInfo << " | " << file_state(dir + "/jobs.xml");
  std::string cmd = "rm -rf " + dir;
  if (system(cmd.c_str())) {}
  return o.str();
}

int main(int argc, char **argv) {
  std::string mode = argc > 1 ? argv[1] : "rand";
  long N = argc > 2 ? atol(argv[2]) : 50;
  Rng r(env_seed() * 7919 + 10);
  signal(SIGPIPE, SIG_IGN);
  if (mode == "replay") {
    std::string line;
    while (std::getline(std::cin, line)) {
      std::vector<std::string> t = split_ws(line);
      if (t.size() >= 8 && t[0] == "C10" && t[1] == "rrun") {
        RunCfg c{atoi(t[2].c_str()), atoi(t[3].c_str()), 1, 1000, -1, -1};
        c.restart = true; c.failRule = t[4] == "1";
        size_t k = 6;
        for (int i = 0; i < c.P && k + 2 < t.size(); i++, k += 3) { c.pcache.push_back(atoi(t[k].c_str())); c.pmax.push_back(atoi(t[k + 1].c_str())); c.ppat.push_back(atoi(t[k + 2].c_str())); }
        k++;
        for (int j = 0; j < c.J && k < t.size(); j++, k++) c.hist.push_back(atoi(t[k].c_str()));
        if ((int)c.pcache.size() != c.P || (int)c.hist.size() != c.J) continue;
        for (int rep = 0; rep < 40; rep++) { c.directed = c.P >= 2 && rep % 2 == 1; printf("%s\n", run_once(c, r).c_str()); }
        continue;
      }
      if (t.size() < 8 || t[0] != "C10") continue;
      RunCfg c{atoi(t[2].c_str()), atoi(t[3].c_str()), atoi(t[4].c_str()), atoi(t[5].c_str()), atoi(t[6].c_str()), atoi(t[7].c_str())};
      for (int k = 0; k < 40; k++) printf("%s\n", run_once(c, r).c_str());
    }
    return 0;
  }
  if (mode == "restart") {
    for (long i = 0; i < N; i++) {
      RunCfg c{1 + (int)r.below(3), 2 + (int)r.below(7), 1, 1000, -1, -1};
      if (r.coin(1, 3)) c.P = 3;          // bystander scenarios need a third process
      c.restart = true; c.failRule = r.coin(1, 2);
      for (int p = 0; p < c.P; p++) {
        c.pcache.push_back(1 + (int)r.below(3));
        c.pmax.push_back(r.coin(1, 4) ? 1 + (int)r.below(3) : 1000);
        { static const int pats[] = {1, 2, 2, 3, 3, 4}; c.ppat.push_back(r.coin(1, 3) ? 0 : pats[r.below(6)]); }
      }
      { static const int kinds[] = {1, 2, 3, 4, 4, 4}; for (int j = 0; j < c.J; j++) c.hist.push_back(r.coin(1, 3) ? 0 : kinds[r.below(6)]); }
      if (r.coin(1, 3)) {
        // bystander scenario: process 0 (any pattern) loads the history and takes work, then process 1 — whose pattern re-opens the jobs
        // completed by an earlier host — runs from start to end while process 0 stands still
        c.directed = true;
        if (c.P < 2) { c.P = 2; c.pcache.push_back(1 + (int)r.below(3)); c.pmax.push_back(1000); c.ppat.push_back(0); }
        c.ppat[1] = r.coin(1, 2) ? 1 : 4; c.pmax[1] = 1000;
        if (r.coin(1, 2)) c.ppat[0] = 0;
        c.hist[0] = 0;
        if (c.J >= 2) c.hist[1 + r.below(c.J - 1)] = 1;
      }
      printf("%s\n", run_once(c, r).c_str());
      fflush(stdout);
    }
    return 0;
  }
  for (long i = 0; i < N; i++) {
    RunCfg c;
    c.P = 1 + (int)r.below(4);
    c.J = 1 + (int)r.below(8);
    c.cache = 1 + (int)r.below(3);
    c.maxjobs = 1000;
    bool crash = r.coin(1, 3);
    c.crashProc = crash ? (int)r.below(c.P) : -1;
    c.crashAt = crash ? (int)r.below(40) : -1;
    printf("%s\n", run_once(c, r).c_str());
    fflush(stdout);
  }
  return 0;
}
