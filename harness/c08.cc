// C08 correspondence harness: write frame sequences with every trajectory writer of the real library, read them back with the
// matching topology/trajectory readers and print original and read-back data; tables (flags, error column), IMC matrices and
// index files likewise; a frame whose atom count disagrees with the topology.
#include "common.h"
#include <fstream>
#include <sstream>
#include <sys/wait.h>
#include <unistd.h>
#include <votca/csg/imcio.h>
#include <votca/csg/topology.h>
#include <votca/csg/topologyreader.h>
#include <votca/csg/trajectoryreader.h>
#include <votca/csg/trajectorywriter.h>
#include <votca/tools/rangeparser.h>
#include <votca/tools/table.h>
using namespace votca;
using namespace votca::csg;
typedef Eigen::Vector3d V;
typedef Eigen::Matrix3d M;

static std::string v3(const V &v) { return dexact(v.x()) + " " + dexact(v.y()) + " " + dexact(v.z()); }
static std::string tmpdir() { const char *d = getenv("VERIF_TMP"); return d ? d : "."; }
static std::string tmpfile_(const std::string &ext) {
  static int k = 0;
  return tmpdir() + "/c08_" + std::to_string((int)getpid()) + "_" + std::to_string(k++) + "." + ext;
}

struct Frame { M box; std::vector<V> pos, vel, frc; double time; long step; };

static void fill(Topology &top, int n, bool vel, bool frc) {
  top.CreateResidue("RES");
  top.CreateResidue("SOL");
  Molecule *m1 = top.CreateMolecule("M1");
  top.RegisterBeadType("C");
  top.RegisterBeadType("O");
  top.RegisterBeadType("N");
  static const char *types[] = {"C", "O", "N"};
  for (int i = 0; i < n; i++) {
    std::string name = std::string(types[i % 3]) + std::to_string(i % 7);
    Bead *b = top.CreateBead(Bead::spherical, name, types[i % 3], i < n / 2 ? 0 : 1, 12.0 + i, 0.25 * (i % 3 - 1));
    b->setPos(V::Zero());
    if (vel) b->setVel(V::Zero());
    if (frc) b->setF(V::Zero());
    m1->AddBead(b, name);
  }
}

static void set_frame(Topology &top, const Frame &f, bool vel, bool frc) {
  top.setBox(f.box);
  top.setTime(f.time);
  top.setStep(f.step);
  for (size_t i = 0; i < f.pos.size(); i++) {
    top.getBead(i)->setPos(f.pos[i]);
    if (vel) top.getBead(i)->setVel(f.vel[i]);
    if (frc) top.getBead(i)->setF(f.frc[i]);
  }
}

static double coord(Rng &r, int kind) {
  // magnitudes within every format's field width (|x| < 99 nm), both signs, values exactly on print boundaries
  switch (kind) {
    case 0: return (r.unit() - 0.3) * 9;
    case 1: return (double)r.range(-9000, 9000) / 1000.0;                 // three decimals
    case 2: return (double)r.range(-90000, 90000) / 1000.0 + 0.0005;      // printing ties
    case 4: return (double)r.range(-999999, 999999) / 1000.0;             // fills the whole %8.3f field
    default: return (r.unit() - 0.5) * 0.02;                              // tiny
  }
}

static void traj_case(Rng &r, const std::string &fmt) {
  int n = 1 + (int)r.below(10);
  int F = 1 + (int)r.below(3);
  bool vel = r.coin(), frc = r.coin();
  int bk = (int)r.below(3);   // 0 orthorhombic, 1 triclinic, 2 cubic
  int ck = (int)r.below(6);
  // pdb is a fixed-column format (%8.3f Angstrom): |x| < 10 nm keeps its fields apart.  xyz is read token by token: every magnitude is legal there
  // (the restriction that used to be applied to xyz as well hid a writer that put no blank between its fields)
  if ((ck == 4 || ck == 2) && fmt == "pdb") ck = 1;
  std::vector<Frame> frames(F);
  int tk = r.coin() ? 1 + (int)r.below(6) : 0;
  for (int k = 0; k < F; k++) {
    Frame &f = frames[k];
    f.box = M::Zero();
    double L = 3 + r.unit() * 5;
    f.box(0, 0) = L; f.box(1, 1) = bk == 2 ? L : L * (0.8 + 0.4 * r.unit()); f.box(2, 2) = bk == 2 ? L : L * (0.8 + 0.4 * r.unit());
    if (bk == 1) { f.box(0, 1) = (r.unit() - 0.5) * L * 0.5; f.box(0, 2) = (r.unit() - 0.5) * L * 0.5; f.box(1, 2) = (r.unit() - 0.5) * L * 0.5; }
    f.time = k * 0.5; f.step = 100 * k;
    // half of the runs: step numbers from 100 on and a time step from a list with round and non-round values (time = step * dt)
    if (tk > 0) { static const double dts[] = {0.005, 0.002, 1.0 / 3000.0, 0.000123456789, 1e-5, 0.25}; f.step = 100 * (k + 1); f.time = (double)f.step * dts[tk - 1]; }
    for (int i = 0; i < n; i++) {
      f.pos.push_back(V(coord(r, ck), coord(r, ck), coord(r, ck)));
      f.vel.push_back(V(coord(r, 0) * 0.1, coord(r, 0) * 0.1, coord(r, 0) * 0.1));
      f.frc.push_back(V(coord(r, 0) * 100, coord(r, 0) * 100, coord(r, 0) * 100));
    }
  }
  std::string file = tmpfile_(fmt);
  std::ostringstream o;
  o << "C08 traj " << fmt << " " << n << " " << F << " " << (vel ? 1 : 0) << " " << (frc ? 1 : 0);
  Topology top;
  fill(top, n, vel, frc);
  top.SetHasVel(vel);
  top.SetHasForce(frc);
  for (int i = 0; i < n; i++) o << " " << hexs(top.getBead(i)->getName());
  for (auto &f : frames) {
    o << " " << v3(f.box.col(0)) << " " << v3(f.box.col(1)) << " " << v3(f.box.col(2));
    for (int i = 0; i < n; i++) { o << " " << v3(f.pos[i]); if (vel) o << " " << v3(f.vel[i]); if (frc) o << " " << v3(f.frc[i]); }
  }
  std::string status = "ok";
  std::ostringstream rd;
  int nread = 0;
  try {
    {
      std::unique_ptr<TrajectoryWriter> w = TrjWriterFactory().Create(file);
      if (!w) throw std::runtime_error("no writer");
      // one trajectory in three is written by a writer object that has written another file before — with the opposite presence of
      // velocities and forces: what a writer keeps from an earlier file must not shape the next one
      static long reuse_ctr = 0;
      if (++reuse_ctr % 3 == 0 && !frames.empty()) {
        try {
          Topology top2;
          fill(top2, n, !vel, !frc);
          top2.SetHasVel(!vel);
          top2.SetHasForce(!frc);
          auto f2 = frames[0];
          f2.vel = f2.pos; f2.frc = f2.pos;
          std::string warm = file + ".warm";
          w->Open(warm, false);
          set_frame(top2, f2, !vel, !frc);
          w->Write(&top2);
          w->Close();
          unlink(warm.c_str());
        } catch (std::exception &) {}
      }
      w->Open(file, false);
      for (auto &f : frames) { set_frame(top, f, vel, frc); w->Write(&top); }
      w->Close();
    }
    // (a) the format's own topology reader on the written file: bead count and names
    std::string topstatus = "none";
    std::ostringstream tn;
    int topn = 0;
    try {
      std::unique_ptr<TopologyReader> tr = TopReaderFactory().Create(file);
      if (tr) {
        Topology ttop;
        tr->ReadTopology(file, ttop);
        topstatus = "ok";
        topn = (int)ttop.BeadCount();
        for (Index i = 0; i < ttop.BeadCount(); i++) tn << " " << hexs(ttop.getBead(i)->getName());
      }
    } catch (std::exception &e) {
      topstatus = std::string("err:") + e.what();
      topn = 0; tn.str("");
    }
    rd << " " << hexs(topstatus) << " " << topn << tn.str();
    // (b) the trajectory reader on a copy of the original topology
    Topology rtop;
    rtop.CopyTopologyData(&top);
    rtop.SetHasVel(false);
    rtop.SetHasForce(false);
    for (Index i = 0; i < rtop.BeadCount(); i++) { rtop.getBead(i)->setPos(V::Zero()); }
    std::unique_ptr<TrajectoryReader> t = TrjReaderFactory().Create(file);
    if (!t) throw std::runtime_error("no trajectory reader");
    t->Open(file);
    std::ostringstream fr;
    bool ok = t->FirstFrame(rtop);
    while (ok && nread < 10) {
      nread++;
      M b = rtop.getBox();
      fr << " " << v3(b.col(0)) << " " << v3(b.col(1)) << " " << v3(b.col(2));
      bool hv = rtop.BeadCount() > 0 && (rtop.getBead(0)->HasVel() || rtop.HasVel()), hf = rtop.BeadCount() > 0 && (rtop.getBead(0)->HasF() || rtop.HasForce());
      fr << " " << (hv ? 1 : 0) << " " << (hf ? 1 : 0);
      for (Index i = 0; i < rtop.BeadCount(); i++) {
        fr << " " << v3(rtop.getBead(i)->getPos());
        if (hv) fr << " " << v3(rtop.getBead(i)->getVel());
        if (hf) fr << " " << v3(rtop.getBead(i)->getF());
      }
      ok = t->NextFrame(rtop);
    }
    t->Close();
    rd << " " << nread << fr.str();
  } catch (std::exception &e) {
    if (status == "ok") status = std::string("err:") + e.what();
    rd.str("");
  }
  if (!(getenv("C08_KEEP") && status != "ok")) unlink(file.c_str());
  o << " | " << hexs(status) << rd.str();
  printf("%s\n", o.str().c_str());
}

// a trajectory whose atom count differs from the topology must be refused
static void mismatch_case(Rng &r, const std::string &fmt) {
  int n = 2 + (int)r.below(6);
  int dn = r.coin() ? 1 : -1;
  Frame f; f.box = M::Identity() * 5; f.time = 0; f.step = 0;
  for (int i = 0; i < n; i++) { f.pos.push_back(V(coord(r, 1), coord(r, 1), coord(r, 1))); f.vel.push_back(V::Zero()); f.frc.push_back(V::Zero()); }
  std::string file = tmpfile_(fmt);
  std::string result = "accepted";
  try {
    Topology top; fill(top, n, false, false);
    { auto w = TrjWriterFactory().Create(file); w->Open(file, false); set_frame(top, f, false, false); w->Write(&top); w->Close(); }
    Topology other; fill(other, n + dn, false, false);
    auto t = TrjReaderFactory().Create(file);
    t->Open(file);
    bool ok = t->FirstFrame(other);
    t->Close();
    result = ok ? "accepted" : "refused-false";
  } catch (std::exception &e) { result = "refused"; }
  unlink(file.c_str());
  printf("C08 mismatch %s %d %d %s\n", fmt.c_str(), n, n + dn, result.c_str());
}

static void table_case(Rng &r) {
  int n = 1 + (int)r.below(8);
  bool yerr = r.coin();
  tools::Table t;
  t.SetHasYErr(yerr);
  t.resize(n);
  std::ostringstream o;
  o << "C08 table " << n << " " << (yerr ? 1 : 0);
  static const char fl[] = {'i', 'o', 'u'};
  double x = (double)r.range(-20, 20) / 8.0;
  for (int i = 0; i < n; i++) {
    x += (double)r.range(1, 16) / 16.0;
    double y = coord(r, (int)r.below(4)) * (r.coin(1, 4) ? 1e6 : 1), e = r.unit();
    char f = fl[r.below(3)];
    if (yerr) t.set(i, x, y, f, e); else t.set(i, x, y, f);
    o << " " << dexact(x) << " " << dexact(y) << " " << f << " " << dexact(yerr ? e : 0.0);
  }
  std::string file = tmpfile_("tab");
  std::string status = "ok";
  std::ostringstream rd;
  try {
    t.Save(file);
    tools::Table u;
    u.Load(file);
    rd << " " << u.size() << " " << (u.GetHasYErr() ? 1 : 0);
    for (Index i = 0; i < u.size(); i++) rd << " " << dexact(u.x(i)) << " " << dexact(u.y(i)) << " " << u.flags(i) << " " << dexact(u.GetHasYErr() ? u.yerr(i) : 0.0);
  } catch (std::exception &e) { status = std::string("err:") + e.what(); rd.str(""); }
  unlink(file.c_str());
  o << " | " << hexs(status) << rd.str();
  printf("%s\n", o.str().c_str());
}

static void matrix_case(Rng &r) {
  int rows = 1 + (int)r.below(5), cols = r.coin() ? rows : 1 + (int)r.below(5);
  Eigen::MatrixXd A(rows, cols);
  std::ostringstream o;
  o << "C08 matrix " << rows << " " << cols;
  for (int i = 0; i < rows; i++) for (int j = 0; j < cols; j++) { A(i, j) = coord(r, (int)r.below(3)); o << " " << dexact(A(i, j)); }
  std::string file = tmpfile_("gmc");
  std::string status = "ok";
  std::ostringstream rd;
  try {
    imcio_write_matrix(file, A);
    Eigen::MatrixXd B = imcio_read_matrix(file);
    rd << " " << B.rows() << " " << B.cols();
    for (Index i = 0; i < B.rows(); i++) for (Index j = 0; j < B.cols(); j++) rd << " " << dexact(B(i, j));
  } catch (std::exception &e) { status = std::string("err:") + e.what(); rd.str(""); }
  unlink(file.c_str());
  o << " | " << hexs(status) << rd.str();
  printf("%s\n", o.str().c_str());
}

static void index_case(Rng &r) {
  int k = 1 + (int)r.below(4);
  std::vector<std::pair<std::string, tools::RangeParser>> ranges;
  std::ostringstream o;
  o << "C08 index " << k;
  long start = 1;
  for (int i = 0; i < k; i++) {
    long len = 1 + (long)r.below(6);
    tools::RangeParser rp; rp.Add(start, start + len - 1);
    std::string name = std::string("I") + std::to_string(i) + (r.coin() ? "-x" : "");
    ranges.push_back({name, rp});
    o << " " << hexs(name) << " " << start << " " << start + len - 1;
    start += len;
  }
  std::string file = tmpfile_("idx");
  std::string status = "ok";
  std::ostringstream rd;
  try {
    imcio_write_index(file, ranges);
    auto back = imcio_read_index(file);
    rd << " " << back.size();
    for (auto &p : back) {
      std::vector<long> v; for (Index x : p.second) v.push_back(x);
      rd << " " << hexs(p.first) << " " << (v.empty() ? 0 : v.front()) << " " << (v.empty() ? 0 : v.back()) << " " << v.size();
    }
  } catch (std::exception &e) { status = std::string("err:") + e.what(); rd.str(""); }
  unlink(file.c_str());
  o << " | " << hexs(status) << rd.str();
  printf("%s\n", o.str().c_str());
}

int main(int argc, char **argv) {
  std::string mode = argc > 1 ? argv[1] : "rand";
  long N = argc > 2 ? atol(argv[2]) : 100;
  Rng r(env_seed() * 7919 + 8);
  TrajectoryWriter::RegisterPlugins();
  TrajectoryReader::RegisterPlugins();
  TopologyReader::RegisterPlugins();
  std::streambuf *old = std::cout.rdbuf();
  std::ostringstream sink;
  static const char *fmts[] = {"gro", "dump", "xyz", "pdb", "dlph"};
  if (mode == "replay") {
    std::string line;
    while (std::getline(std::cin, line)) if (line.rfind("C08", 0) == 0) printf("%s\n", line.c_str());
    return 0;
  }
  for (long i = 0; i < N; i++) {
    std::cout.rdbuf(sink.rdbuf());   // the readers chat on stdout
    int k = (int)r.below(20);
    std::ostringstream dummy;
    fflush(stdout);
    if (k < 12) {
      std::string fmt = fmts[r.below(5)];
      Rng sub(r.next());
      traj_case(sub, fmt);     // all formats in one process: every DL_POLY trajectory after the first one needs its own header too
    }
    else if (k < 14) {
      std::string fmt = fmts[r.below(5)];
      Rng sub(r.next());
      mismatch_case(sub, fmt);
    }
    else if (k < 16) table_case(r);
    else if (k < 18) matrix_case(r);
    else index_case(r);
    sink.str("");
    std::cout.rdbuf(old);
  }
  return 0;
}
