#!/usr/bin/env python3
"""C05 harness, executable leg: the REAL csg_stat (built from the working tree) on the complete generated inputs of the C04
generator, once with --nt 1 and once with --nt k (k = 2..8), same options otherwise (block output on/off, --first-frame /
--nframes selections, IMC on/off); every file the two runs wrote is compared byte for byte.  One protocol line per pair of runs.
A second family ("direct", scenario ids ending in :n) analyses the same trajectory WITHOUT a mapping: the xml topology itself
declares the bonds / angles / dihedrals of the molecules (so the exclusions and the bonded interactions every worker evaluates
come from the topology each worker reads for itself)."""
import glob, os, random, re, shutil, subprocess, sys, tempfile
from concurrent.futures import ThreadPoolExecutor

sys.path.insert(0, os.path.dirname(os.path.abspath(__file__)))
import c04 as g

os.environ.setdefault("OMP_NUM_THREADS", "1")     # many runs in parallel: one thread each (no oversubscription, no timeouts under load)
VERIF = g.VERIF
INPUTS = ("topol.xml", "m.xml", "s.xml", "opt.xml", "traj.gro", "traj.dump", "topol_d.xml", "opt_d.xml")


def write_direct(s, d):
    """topology with the bonded section in the xml itself, and an options file over the atom types a / s"""
    natm = sum(len(ws) for (_, ws) in s.m_beads)
    with open(os.path.join(d, "topol_d.xml"), "w") as f:
        f.write("<topology>\n <molecules>\n")
        f.write('  <molecule name="M" nmols="%d" nbeads="%d">\n' % (s.n_m, natm))
        for k in range(natm):
            f.write('   <bead name="a%d" type="a" mass="1.0" q="0"/>\n' % (k + 1))
        f.write("  </molecule>\n")
        f.write('  <molecule name="S" nmols="%d" nbeads="%d">\n' % (s.n_s, len(s.s_weights)))
        for k in range(len(s.s_weights)):
            f.write('   <bead name="s%d" type="s" mass="1.0" q="0"/>\n' % (k + 1))
        f.write("  </molecule>\n </molecules>\n")
        bonded = []
        if natm >= 2:
            bonded.append("  <bond><name>dbond</name><beads>\n%s</beads></bond>\n" % "".join("    M:a%d M:a%d\n" % (i + 1, i + 2) for i in range(natm - 1)))
        if natm >= 3:
            bonded.append("  <angle><name>dangle</name><beads>\n%s</beads></angle>\n" % "".join("    M:a%d M:a%d M:a%d\n" % (i + 1, i + 2, i + 3) for i in range(natm - 2)))
        if natm >= 4:
            bonded.append("  <dihedral><name>ddih</name><beads>\n%s</beads></dihedral>\n" % "".join("    M:a%d M:a%d M:a%d M:a%d\n" % (i + 1, i + 2, i + 3, i + 4) for i in range(natm - 3)))
        if bonded:
            f.write(" <bonded>\n%s </bonded>\n" % "".join(bonded))
        f.write("</topology>\n")
    with open(os.path.join(d, "opt_d.xml"), "w") as f:
        f.write("<cg>\n")
        if natm >= 2:
            f.write(" <bonded><name>dbond</name><min>0</min><max>2.0</max><step>0.05</step></bonded>\n")
        if natm >= 3:
            f.write(" <bonded><name>dangle</name><min>0</min><max>3.15</max><step>0.05</step></bonded>\n")
        if natm >= 4:
            f.write(" <bonded><name>ddih</name><min>-3.15</min><max>3.15</max><step>0.1</step></bonded>\n")
        cut = int(100 * 0.35 * min(min(L) for (_, L, _) in s.boxes)) / 100.0      # well inside half of the smallest box
        f.write(" <non-bonded><name>aa</name><type1>a</type1><type2>a</type2><min>0</min><max>%.2f</max><step>%.4f</step></non-bonded>\n" % (cut, cut / 16))
        f.write(" <non-bonded><name>as</name><type1>a</type1><type2>s</type2><min>0</min><max>%.2f</max><step>%.4f</step></non-bonded>\n" % (cut, cut / 16))
        f.write("</cg>\n")


def gro_to_constant_box_dump(d):
    """third family (":d"): the same frames as a LAMMPS dump trajectory whose box is the SAME in every frame (the largest edge per
    direction over the frames), analysed with a topology that carries no box: every worker's own topology has to receive the box
    from the frames it is handed"""
    lines = open(os.path.join(d, "traj.gro")).read().split("\n")
    frames, k = [], 0
    while k + 1 < len(lines) and lines[k + 1].strip():
        n = int(lines[k + 1])
        atoms = [(float(l[20:28]), float(l[28:36]), float(l[36:44])) for l in lines[k + 2:k + 2 + n]]
        box = [float(x) for x in lines[k + 2 + n].split()[:3]]
        frames.append((atoms, box))
        k += n + 3
    L = [max(b[i] for (_, b) in frames) for i in range(3)]
    with open(os.path.join(d, "traj.dump"), "w") as f:
        for fr, (atoms, _) in enumerate(frames):
            f.write("ITEM: TIMESTEP\n%d\nITEM: NUMBER OF ATOMS\n%d\nITEM: BOX BOUNDS pp pp pp\n" % (fr, len(atoms)))
            for i in range(3):
                f.write("0 %.4f\n" % (L[i] * 10))
            f.write("ITEM: ATOMS id type x y z\n")
            for i, x in enumerate(atoms):
                f.write("%d 1 %.3f %.3f %.3f\n" % (i + 1, x[0] * 10, x[1] * 10, x[2] * 10))


def run_nt(exe, s, nt):
    d = tempfile.mkdtemp(prefix="c05e_", dir=os.environ.get("VERIF_TMP", os.path.join(VERIF, ".cache", "tmp")))
    try:
        g.write_inputs(s, d)
        trj = "traj.gro"
        if getattr(s, "dumpfam", False):
            gro_to_constant_box_dump(d)
            trj = "traj.dump"
        if s.direct:
            write_direct(s, d)
            cmd = [exe, "--top", "topol_d.xml", "--trj", trj, "--options", "opt_d.xml", "--nt", str(nt)]
        else:
            cmd = [exe, "--top", "topol.xml", "--trj", trj, "--cg", "m.xml;s.xml", "--options", "opt.xml", "--nt", str(nt)]
        if s.imc and not s.direct:
            cmd.append("--do-imc")
        if s.intra and not s.direct:
            cmd.append("--include-intra")
        if s.block:
            cmd += ["--block-length", str(s.block)]
        if s.first:
            cmd += ["--first-frame", str(s.first)]
        if s.nframes >= 0:
            cmd += ["--nframes", str(s.nframes)]
        try:
            r = subprocess.run(cmd, cwd=d, stdout=subprocess.PIPE, stderr=subprocess.PIPE, timeout=900)
            rc = r.returncode
        except subprocess.TimeoutExpired:
            rc = 99
        files = {}
        for p in sorted(glob.glob(os.path.join(d, "*"))):
            fn = os.path.basename(p)
            if fn in INPUTS or fn.endswith(".dist.tgt"):
                continue
            files[fn] = open(p, "rb").read()
        return rc, files
    finally:
        shutil.rmtree(d, ignore_errors=True)


def one(exe, s):
    rc1, f1 = run_nt(exe, s, 1)
    rck, fk = run_nt(exe, s, s.ntk)
    names = sorted(set(f1) | set(fk))
    diff = [n for n in names if f1.get(n) != fk.get(n)]
    nsel = len(s.frames)
    return "C05 enrun %s %d %d %d %d %d %d %d %s" % (s.sid, s.ntk, nsel, s.block, rc1, rck, len(names), len(diff), g.hexs(diff[0]) if diff else "-")


def mk(seed, i, direct=None):
    rng = random.Random(seed * 1000003 + i + 555)
    s = g.gen(rng)
    s.ntk = rng.choice([2, 2, 3, 4, 8])
    s.direct = (i % 3 == 2) if direct is None else direct
    s.dumpfam = (i % 4 == 1) and all(b[0] == "o" for b in s.boxes)
    s.sid = "%d:%d%s%s" % (seed, i, ":n" if s.direct else ":m", "d" if s.dumpfam else "")
    return s


def main():
    exe, mode = sys.argv[1], sys.argv[2]
    n = int(sys.argv[3]) if len(sys.argv) > 3 else 40
    seed = int(os.environ.get("VERIF_SEED", "1"))
    os.makedirs(os.environ.get("VERIF_TMP", os.path.join(VERIF, ".cache", "tmp")), exist_ok=True)
    if mode == "rand":
        scen = [mk(seed, i) for i in range(n)]
    else:
        scen = []
        for line in sys.stdin:
            for t in re.findall(r"C05 enrun (\d+:\d+(?::[nm])?)", line):
                parts = t.split(":")
                scen.append(mk(int(parts[0]), int(parts[1]), (parts[2] == "n") if len(parts) > 2 else False))
    with ThreadPoolExecutor(int(os.environ.get("VERIF_JOBS", "6"))) as ex:
        for line in ex.map(lambda s: one(exe, s), scen):
            sys.stdout.write(line + "\n")


if __name__ == "__main__":
    main()
