#!/usr/bin/env python3
"""C05 harness, executable leg: the REAL csg_stat (built from the working tree) on the complete generated inputs of the C04
generator, once with --nt 1 and once with --nt k (k = 2..8), same options otherwise (block output on/off, --first-frame /
--nframes selections, IMC on/off); every file the two runs wrote is compared byte for byte.  One protocol line per pair of runs."""
import glob, os, random, re, shutil, subprocess, sys, tempfile
from concurrent.futures import ThreadPoolExecutor

sys.path.insert(0, os.path.dirname(os.path.abspath(__file__)))
import c04 as g

os.environ.setdefault("OMP_NUM_THREADS", "1")     # many runs in parallel: one thread each (no oversubscription, no timeouts under load)
VERIF = g.VERIF
INPUTS = ("topol.xml", "m.xml", "s.xml", "opt.xml", "traj.gro")


def run_nt(exe, s, nt):
    d = tempfile.mkdtemp(prefix="c05e_", dir=os.environ.get("VERIF_TMP", os.path.join(VERIF, ".cache", "tmp")))
    try:
        g.write_inputs(s, d)
        cmd = [exe, "--top", "topol.xml", "--trj", "traj.gro", "--cg", "m.xml;s.xml", "--options", "opt.xml", "--nt", str(nt)]
        if s.imc:
            cmd.append("--do-imc")
        if s.intra:
            cmd.append("--include-intra")
        if s.block:
            cmd += ["--block-length", str(s.block)]
        if s.first:
            cmd += ["--first-frame", str(s.first)]
        if s.nframes >= 0:
            cmd += ["--nframes", str(s.nframes)]
        try:
            r = subprocess.run(cmd, cwd=d, stdout=subprocess.PIPE, stderr=subprocess.PIPE, timeout=900)
            rc = r.returncode
        except subprocess.TimeoutExpired:
            rc = 99
        files = {}
        for p in sorted(glob.glob(os.path.join(d, "*"))):
            fn = os.path.basename(p)
            if fn in INPUTS or fn.endswith(".dist.tgt"):
                continue
            files[fn] = open(p, "rb").read()
        return rc, files
    finally:
        shutil.rmtree(d, ignore_errors=True)


def one(exe, s):
    rc1, f1 = run_nt(exe, s, 1)
    rck, fk = run_nt(exe, s, s.ntk)
    names = sorted(set(f1) | set(fk))
    diff = [n for n in names if f1.get(n) != fk.get(n)]
    nsel = len(s.frames)
    return "C05 enrun %s %d %d %d %d %d %d %d %s" % (s.sid, s.ntk, nsel, s.block, rc1, rck, len(names), len(diff), g.hexs(diff[0]) if diff else "-")


def mk(seed, i):
    rng = random.Random(seed * 1000003 + i + 555)
    s = g.gen(rng)
    s.sid = "%d:%d" % (seed, i)
    s.ntk = rng.choice([2, 2, 3, 4, 8])
    return s


def main():
    exe, mode = sys.argv[1], sys.argv[2]
    n = int(sys.argv[3]) if len(sys.argv) > 3 else 40
    seed = int(os.environ.get("VERIF_SEED", "1"))
    os.makedirs(os.environ.get("VERIF_TMP", os.path.join(VERIF, ".cache", "tmp")), exist_ok=True)
    if mode == "rand":
        scen = [mk(seed, i) for i in range(n)]
    else:
        scen = []
        for line in sys.stdin:
            for t in re.findall(r"C05 enrun (\d+:\d+)", line):
                a, b = t.split(":")
                scen.append(mk(int(a), int(b)))
    with ThreadPoolExecutor(int(os.environ.get("VERIF_JOBS", "6"))) as ex:
        for line in ex.map(lambda s: one(exe, s), scen):
            sys.stdout.write(line + "\n")


if __name__ == "__main__":
    main()
