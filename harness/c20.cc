// C20 correspondence harness: evaluates UnitConverter::convert for every ordered pair of every enum, every tools::conv
// constant and the Elements getters in the real code.  The enumerator lists come from the translator
// (.cache/gen/c20_enums.inc), so a new unit or constant is picked up without editing this file.
#include "common.h"
#include <algorithm>
#include <votca/tools/constants.h>
#define private public
#include <votca/tools/elements.h>
#undef private
#include <votca/tools/unitconverter.h>
using namespace votca::tools;

int main() {
  UnitConverter uc;
#define U(E, u) std::pair<const char *, int>(#u, (int)E::u)
#define DIM(Name, Enum, ...)                                                                          \
  {                                                                                                   \
    std::vector<std::pair<const char *, int>> us = {__VA_ARGS__};                                    \
    for (auto &a : us)                                                                                \
      for (auto &b : us)                                                                              \
        printf("C20 conv %s %s %s %s\n", #Name, a.first, b.first, dexact(uc.convert((Enum)a.second, (Enum)b.second)).c_str()); \
  }
#define CONSTANT(n) printf("C20 const %s %s\n", #n, dexact(conv::n).c_str());
#define ELEMENT(sym)                                                                                  \
  {                                                                                                   \
    Elements e;                                                                                       \
    std::string s = sym, full = "?", sh = "?", nm = "?";                                            \
    try { full = e.getEleFull(s); } catch (...) {}                                                    \
    try { sh = e.getEleShort(full); } catch (...) {}                                                  \
    long num = e.getEleNum(s);                                                                        \
    try { nm = e.getEleName(num); } catch (...) {}                                                    \
    printf("C20 elem %s %ld %ld %s %s %s %s\n", hexs(s).c_str(), num, (long)e.getNucCrg(s), dexact(e.getMass(s)).c_str(), \
           hexs(nm).c_str(), hexs(full).c_str(), hexs(sh).c_str());                                   \
    /* self-consistency of the mass lookup: the element closest in mass to an element's own mass is that element */ \
    std::string back = "?"; int assoc = -1;                                                           \
    try { back = e.getEleShortClosestInMass(e.getMass(s), 0.01); } catch (...) { back = "!"; }       \
    try { assoc = e.isMassAssociatedWithElement(e.getMass(s), 0.01) ? 1 : 0; } catch (...) {}         \
    printf("C20 massback %s %s %d\n", hexs(s).c_str(), hexs(back).c_str(), assoc);                    \
  }
#include "c20_enums.inc"
  {
    // covalent radii in every unit the getter offers, for every element of its table
    Elements e;
    e.getCovRad("H", "ang");
    std::vector<std::string> names;
    for (auto &kv : e.CovRad_) names.push_back(kv.first);
    std::sort(names.begin(), names.end());
    for (auto &n : names) {
      std::string res[3];
      const char *units[3] = {"ang", "nm", "bohr"};
      for (int k = 0; k < 3; k++) { try { res[k] = dexact(e.getCovRad(n, units[k])); } catch (std::exception &) { res[k] = "nan 0"; } }
      printf("C20 covrad %s %s %s %s\n", hexs(n).c_str(), res[0].c_str(), res[1].c_str(), res[2].c_str());
    }
  }
  {
    // the mass lookup away from the tabulated masses: far outside the table on both sides, in the gaps between neighbouring masses, with
    // a tight and a loose tolerance; a mass farther than the tolerance from every element must be refused
    Elements e;
    e.getMass("H");
    std::vector<double> ms;
    for (auto &kv : e.Mass_) ms.push_back(kv.second);
    std::sort(ms.begin(), ms.end());
    std::vector<double> probes = {300.0, 1e4, ms.back() + 0.75, ms.back() + 0.005, ms.front() - 0.005, 0.9, 0.4, 0.0, -1.0, -1e3};
    for (size_t i = 0; i + 1 < ms.size(); i++) { probes.push_back(0.5 * (ms[i] + ms[i + 1]) + 0.001); probes.push_back(ms[i] + 0.3 * (ms[i + 1] - ms[i])); }
    const double tols[2] = {0.01, 0.6};
    for (double m : probes) for (double tol : tols) {
      std::string back = "?"; int assoc = -1;
      try { back = e.getEleShortClosestInMass(m, tol); } catch (...) { back = "!"; }
      try { assoc = e.isMassAssociatedWithElement(m, tol) ? 1 : 0; } catch (...) {}
      printf("C20 massprobe %s %s %s %d\n", dexact(m).c_str(), dexact(tol).c_str(), hexs(back).c_str(), assoc);
    }
  }
  return 0;
}
