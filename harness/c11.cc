// C11 correspondence harness: OptionsHandler::ProcessUserInput of the real code on every shipped calculator description
// (links resolved by the real code) and generated user trees; Property XML print/load round trips; typed access literals.
#include "common.h"
#include <dirent.h>
#include <fstream>
#include <iostream>
#include <sstream>
#include <unistd.h>
#include <votca/tools/property.h>
#include <votca/tools/propertyiomanipulator.h>
#define private public
#include <votca/tools/optionshandler.h>
#undef private
using namespace votca::tools;

static void ser(std::ostringstream &o, const Property &p) {
  o << " T " << hexs(p.name()) << " " << hexs(p.value());
  int na = 0;
  for (auto it = p.firstAttribute(); it != p.lastAttribute(); ++it) na++;
  o << " " << na;
  for (auto it = p.firstAttribute(); it != p.lastAttribute(); ++it) o << " " << hexs(it->first) << " " << hexs(it->second);
  o << " " << p.size();
  for (const Property &c : p) ser(o, c);
}

static std::string pick(Rng &r, std::initializer_list<const char *> l) { return *(l.begin() + r.below(l.size())); }

static std::vector<std::string> choices_of(const Property &p) {
  if (!p.hasAttribute("choices")) return {};
  return OptionsHandler::GetPropertyChoices(p);
}

static std::string value_for(Rng &r, const Property &d) {
  std::vector<std::string> ch = choices_of(d);
  bool valid = r.coin(4, 5);
  if (ch.empty()) return r.coin() ? (d.hasAttribute("default") ? d.getAttribute<std::string>("default") : "x") : pick(r, {"abc", "1", "some text", "a<b", ""});
  const std::string &h = ch.front();
  if (h == "bool") return valid ? pick(r, {"true", "false", "1", "0", "TRUE", "False", " true "}) : pick(r, {"yes", "2", "t", ""});
  if (h == "float") return valid ? pick(r, {"1.5", "-2e-3", ".5", "1.", "inf", "7", "-0.0", "+3.25E+2", "nan"}) : pick(r, {"abc", "1e", "1 2", "--1", "1.5x"});
  if (h == "float+") return valid ? pick(r, {"0", "-0.0", "2.5", "1e-3", "inf", "+4"}) : pick(r, {"-1", "-1e-9", "abc", "-inf", "nan"});
  if (h == "int") return valid ? pick(r, {"-3", "+7", "0", "42", " 5 "}) : pick(r, {"1.0", "abc", "1e3", "", "4 5"});
  if (h == "int+") return valid ? pick(r, {"0", "12", "+3", "007"}) : pick(r, {"-1", "1.5", "x", "-0x"});
  std::string att = d.getAttribute<std::string>("choices");
  if (att.find('[') == std::string::npos) return valid ? ch[r.below(ch.size())] : pick(r, {"bogus", "", "xfine2"});
  if (!valid) return ch[r.below(ch.size())] + " bogus";
  std::string v;
  int k = 1 + (int)r.below(ch.size());
  for (int i = 0; i < k; i++) v += (i ? (r.coin() ? " " : ",") : "") + ch[r.below(ch.size())];
  return v;
}

static void gen(Rng &r, const Property &d, Property &u, int depth) {
  bool list = d.hasAttribute("list");
  for (const Property &c : d) {
    if (c.hasAttribute("unchecked") && !c.HasChildren()) {
      // a DECLARED unchecked section (dftpackage: orca): free content, with and without the attribute repeated on the user's node
      if (r.coin()) {
        Property &n = u.add(c.name(), "");
        if (r.coin(1, 3)) n.setAttribute("unchecked", "");
        int k = 1 + (int)r.below(2);
        for (int q = 0; q < k; q++) n.add("free" + std::to_string(r.below(3)), pick(r, {"anything", "B3LYP", "1"}));
      }
      continue;
    }
    int copies = list ? (int)r.below(4) : (r.coin(c.hasAttribute("default") && c.getAttribute<std::string>("default") == "REQUIRED" ? 9 : 5, 10) ? 1 : 0);
    if (!list && r.coin(1, 40)) copies = 2;     // the same option twice: last one wins
    for (int k = 0; k < copies; k++) {
      Property &n = u.add(c.name(), c.HasChildren() ? "" : value_for(r, c));
      if (c.HasChildren()) gen(r, c, n, depth + 1);
    }
  }
  if (r.coin(1, 60)) u.add("notanoption", "1");
  // an undeclared name under a user node that carries the attribute `unchecked` itself (the section is NOT declared unchecked)
  if (depth > 0 && !d.hasAttribute("unchecked") && !list && r.coin(1, 120)) { u.setAttribute("unchecked", ""); u.add("smuggled", "1"); }
  if (d.hasAttribute("unchecked") && r.coin()) { u.add("free" + std::to_string(r.below(3)), "anything"); }
}

// link resolution: the calculator file and every sub-package file as the XML loader returns them (no link resolved), and the
// defaults the real code produces from them; the model splices the packages itself
static void links_case(const std::string &dir, const std::string &calc) {
  std::ostringstream o;
  o << "C11 links " << hexs(calc);
  Property raw;
  raw.LoadFromXML(dir + "/" + calc + ".xml");
  ser(o, raw);
  std::vector<std::string> pk;
  std::string sub = dir + "/subpackages/";
  if (DIR *d = opendir(sub.c_str())) {
    while (dirent *e = readdir(d)) { std::string n = e->d_name; if (n.size() > 4 && n.substr(n.size() - 4) == ".xml") pk.push_back(n); }
    closedir(d);
  }
  std::sort(pk.begin(), pk.end());
  o << " | " << pk.size();
  for (auto &f : pk) {
    Property doc;
    doc.LoadFromXML(sub + f);
    o << " " << hexs(f);
    ser(o, *(doc.begin()));
  }
  o << " |";
  try {
    OptionsHandler h(dir);
    Property D = h.LoadDefaults(calc);
    o << " OK";
    ser(o, D);
  } catch (std::exception &e) { o << " ERR " << hexs(e.what()); }
  printf("%s\n", o.str().c_str());
}

static void process_case(Rng &r, const std::string &dir, const std::string &calc) {
  OptionsHandler h(dir);
  Property D = h.LoadDefaults(calc);
  Property U;
  Property &uo = U.add("options", "");
  gen(r, D.get("options"), uo, 0);
  if (r.coin(1, 50)) U.add("stray", "x");
  std::ostringstream o;
  o << "C11 process " << hexs(calc);
  ser(o, D);
  o << " |";
  ser(o, U);
  o << " |";
  try {
    Property R = h.ProcessUserInput(U, calc);
    o << " OK";
    ser(o, R);
  } catch (std::exception &e) {
    std::string w = e.what();
    const char *k = w.find("Votca has no option") != std::string::npos ? "unknown" : w.find("Please specify an input") != std::string::npos ? "required"
                    : w.find("The input value for") != std::string::npos ? "value" : w.find("Developers") != std::string::npos ? "listtag" : "other";
    o << " ERR " << k << " " << hexs(w);
  }
  printf("%s\n", o.str().c_str());
}

static void rnd_tree(Rng &r, Property &p, int depth, const std::string &alpha) {
  int nc = depth >= 3 ? 0 : (int)r.below(4);
  for (int i = 0; i < nc; i++) {
    std::string name = std::string(1, "abcxyz"[r.below(6)]) + std::to_string(r.below(3));
    std::string val;
    bool leaf = depth >= 2 || r.coin();
    if (leaf) { int n = (int)r.below(7); for (int k = 0; k < n; k++) val.push_back(alpha[r.below(alpha.size())]); }
    Property &c = p.add(name, val);
    int na = (int)r.below(3);
    for (int a = 0; a < na; a++) {
      std::string av; int n = (int)r.below(5); for (int k = 0; k < n; k++) av.push_back(alpha[r.below(alpha.size())]);
      c.setAttribute(std::string("at") + "pq"[r.below(2)], av);
    }
    if (!leaf) rnd_tree(r, c, depth + 1, alpha);
  }
}

static std::string tmpdir;
static void xml_case(Rng &r, bool meta) {
  Property root;
  Property &top = root.add("top", "");
  rnd_tree(r, top, 0, meta ? std::string("ab <>&\"'1") : std::string("ab 1._-"));
  std::ostringstream o;
  std::string file = tmpdir + "/t.xml";
  {
    std::ofstream f(file);
    PropertyIOManipulator iom(PropertyIOManipulator::XML, 0, "");
    f << iom << top;   // Property's operator<< prints the node itself with the manipulator
  }
  std::string text;
  { std::ifstream f(file); std::ostringstream b; b << f.rdbuf(); text = b.str(); }
  // the characters the writer produced go to the driver, which compares them with the model of PrintNodeXML / XmlEscape
  o << "C11 xml " << (meta ? 1 : 0) << " F " << hexs(text);
  ser(o, top);
  o << " |";
  try {
    Property back;
    back.LoadFromXML(file);
    o << " OK " << back.size();
    for (const Property &c : back) ser(o, c);
  } catch (std::exception &e) {
    o << " ERR load " << hexs(e.what());
  }
  printf("%s\n", o.str().c_str());
}

static void lit_case(const std::string &s) {
  Property p("v", s, "");
  std::string b = "-", i = "-", f = "-";
  try { b = p.as<bool>() ? "1" : "0"; } catch (...) { b = "E"; }
  try { i = std::to_string(p.as<votca::Index>()); } catch (...) { i = "E"; }
  try { double d = p.as<double>(); f = std::isnan(d) ? "isnan" : (d >= 0.0 ? "ge0" : "lt0"); } catch (...) { f = "E"; }
  printf("C11 lit %s %s %s %s\n", hexs(s).c_str(), b.c_str(), i.c_str(), f.c_str());
}

int main(int argc, char **argv) {
  std::string mode = argc > 1 ? argv[1] : "rand";
  long N = argc > 2 ? atol(argv[2]) : 300;
  std::string dir = argc > 3 ? argv[3] : "/repo/xtp/share/xtp/xml/";
  Rng r(env_seed() * 7919 + 11);
  char tmpl[] = "/tmp/votca_verif_c11_XXXXXX";
  tmpdir = mkdtemp(tmpl);
  std::vector<std::string> calcs;
  if (DIR *d = opendir(dir.c_str())) {
    while (dirent *e = readdir(d)) { std::string n = e->d_name; if (n.size() > 4 && n.substr(n.size() - 4) == ".xml") calcs.push_back(n.substr(0, n.size() - 4)); }
    closedir(d);
  }
  std::sort(calcs.begin(), calcs.end());
  // every calculator once with empty user options, then random user trees
  if (mode == "rand") {
    for (auto &c : calcs) links_case(dir, c);
    for (auto &c : calcs) for (int k = 0; k < 2; k++) process_case(r, dir, c);
    for (long i = 0; i < N; i++) {
      int k = (int)r.below(10);
      if (k < 6) process_case(r, dir, calcs[r.below(calcs.size())]);
      else if (k < 8) xml_case(r, k == 7);
      else {
        static const char *lits[] = {"true", "TRUE", "false", "False", "1", "0", "yes", "2", "", " 1 ", "1.5", "-2e-3", ".5", "1.", "inf", "-inf", "nan", "1e",
                                     "abc", "0x10", "+7", "-0", "-0.0", "007", "1 2", "1e5", "1E+3", "--1", "+.5e-2", "9223372036854775807", "9223372036854775808", "t", "tRuE", "1.0", "-1"};
        if (r.coin()) lit_case(lits[r.below(sizeof(lits) / sizeof(lits[0]))]);
        else { std::string s; int n = (int)r.below(6); for (int q = 0; q < n; q++) s.push_back("01.e-+ tnif"[r.below(11)]); lit_case(s); }
      }
    }
  }
  std::string cmd = "rm -rf " + tmpdir;
  if (system(cmd.c_str())) {}
  return 0;
}
