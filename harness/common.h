// Shared helpers for the correspondence harnesses: one PRNG, exact double printing, hex strings.
#pragma once
#include <cmath>
#include <cstdint>
#include <cstdio>
#include <cstdlib>
#include <string>
#include <vector>

struct Rng {
  uint64_t s;
  explicit Rng(uint64_t seed) : s(seed) {}
  uint64_t next() {  // splitmix64
    uint64_t z = (s += 0x9E3779B97F4A7C15ULL);
    z = (z ^ (z >> 30)) * 0xBF58476D1CE4E5B9ULL;
    z = (z ^ (z >> 27)) * 0x94D049BB133111EBULL;
    return z ^ (z >> 31);
  }
  uint64_t below(uint64_t n) { return n ? next() % n : 0; }
  long range(long lo, long hi) { return lo + (long)below((uint64_t)(hi - lo + 1)); }
  double unit() { return (double)(next() >> 11) * (1.0 / 9007199254740992.0); }
  bool coin(int num = 1, int den = 2) { return (int)below(den) < num; }
};

inline std::string hexs(const std::string &s) {
  if (s.empty()) return "-";
  static const char *d = "0123456789abcdef";
  std::string o;
  for (unsigned char c : s) {
    o.push_back(d[c >> 4]);
    o.push_back(d[c & 15]);
  }
  return o;
}

inline std::string unhexs(const std::string &h) {
  if (h == "-") return "";
  auto v = [](char c) { return c <= '9' ? c - '0' : (c | 32) - 'a' + 10; };
  std::string o;
  for (size_t i = 0; i + 1 < h.size(); i += 2) o.push_back((char)(v(h[i]) * 16 + v(h[i + 1])));
  return o;
}

inline std::vector<std::string> split_ws(const std::string &l) {
  std::vector<std::string> t;
  size_t i = 0;
  while (i < l.size()) {
    while (i < l.size() && l[i] == ' ') i++;
    size_t j = i;
    while (j < l.size() && l[j] != ' ') j++;
    if (j > i) t.push_back(l.substr(i, j - i));
    i = j;
  }
  return t;
}

// x = mant * 2^exp from the two printed integers
inline double dparse(const std::string &m, const std::string &e) { return std::ldexp((double)atoll(m.c_str()), atoi(e.c_str())); }

// exact: x = mant * 2^exp, printed as "mant exp"
inline std::string dexact(double x) {
  if (x == 0.0 || !std::isfinite(x)) {
    if (std::isnan(x)) return "nan 0";
    if (std::isinf(x)) return x > 0 ? "inf 0" : "-inf 0";
    return "0 0";
  }
  int e;
  double m = std::frexp(x, &e);        // x = m * 2^e, 0.5 <= |m| < 1
  long long mi = (long long)std::ldexp(m, 53);
  e -= 53;
  while (mi != 0 && (mi % 2 == 0)) { mi /= 2; e += 1; }
  char buf[64];
  snprintf(buf, sizeof buf, "%lld %d", mi, e);
  return buf;
}

inline uint64_t env_seed() {
  const char *s = getenv("VERIF_SEED");
  return s ? strtoull(s, nullptr, 10) : 1;
}
