// C02 correspondence harness: Topology::setBox / BCShortestConnection / BoxVolume / ShortestBoxSize of the real code
// on generated boxes and point pairs.  Exact stream: dyadic coordinates, power-of-two box diagonal (every double
// intermediate exact); generic stream: arbitrary doubles.
#include "common.h"
#include <votca/csg/topology.h>
using namespace votca;
using namespace votca::csg;
typedef Eigen::Vector3d V;
typedef Eigen::Matrix3d M;

static std::string v3(const V &v) { return dexact(v.x()) + " " + dexact(v.y()) + " " + dexact(v.z()); }

// type: A auto, O ortho, T triclinic, P open (explicit)
static void mic_case(const char *kind, char type, const M &box, const V &ri, const V &rj, int na, int nb, int nc, int route = -1) {
  // ONE topology for the whole stream: every case gives it a new box, as every frame of a trajectory does; whatever the object
  // remembers from the boxes and distance calls before (cached reciprocals, a kept boundary object) must not leak into this case
  static Topology top;
  BoundaryCondition::eBoxtype bt = type == 'A' ? BoundaryCondition::typeAuto : type == 'O' ? BoundaryCondition::typeOrthorhombic
                                   : type == 'T' ? BoundaryCondition::typeTriclinic : BoundaryCondition::typeOpen;
  top.setBox(box, bt);
  V rjs = rj + box.col(0) * (double)na + box.col(1) * (double)nb + box.col(2) * (double)nc;
  // every other case asks through the bead-index route Topology::getDist(i, j) (the one the bonded interactions use): three beads
  // of the same topology carry the three points
  static long ncase = 0;
  static bool beads_made = false;
  if (!beads_made) {
    top.CreateResidue("R");
    top.RegisterBeadType("X");
    for (int k = 0; k < 3; k++) top.CreateBead(Bead::spherical, "b" + std::to_string(k), "X", 0, 1.0, 0.0);
    beads_made = true;
  }
  bool by_bead = route < 0 ? (ncase++ % 2) == 1 : route == 1;
  V d, dsw, dsh;
  std::string kindS = kind;
  if (by_bead) {
    top.getBead(0)->setPos(ri); top.getBead(1)->setPos(rj); top.getBead(2)->setPos(rjs);
    d = top.getDist(0, 1); dsw = top.getDist(1, 0); dsh = top.getDist(0, 2);
    kindS += "b";
  } else {
    d = top.BCShortestConnection(ri, rj); dsw = top.BCShortestConnection(rj, ri); dsh = top.BCShortestConnection(ri, rjs);
  }
  int t = (int)top.getBoxType();
  double vol = top.BoxVolume();
  double h = t == (int)BoundaryCondition::typeOpen ? 0.0 : top.ShortestBoxSize();
  printf("C02 %s %c %s %s %s %s %s %s %d %d %d %c %s %s %s %s %s\n", kindS.c_str(), type, v3(box.col(0)).c_str(), v3(box.col(1)).c_str(),
         v3(box.col(2)).c_str(), v3(ri).c_str(), v3(rj).c_str(), v3(rjs).c_str(), na, nb, nc,
         t == (int)BoundaryCondition::typeOpen ? 'P' : t == (int)BoundaryCondition::typeOrthorhombic ? 'O' : 'T', v3(d).c_str(),
         v3(dsw).c_str(), v3(dsh).c_str(), dexact(vol).c_str(), dexact(h).c_str());
}

static double dy(Rng &r, long lo, long hi, int den) { return (double)r.range(lo, hi) / (double)den; }

static M rnd_box_exact(Rng &r, int &kind) {
  M b = M::Zero();
  kind = (int)r.below(10);
  if (kind == 0) return b;  // open
  double ax = std::ldexp(1.0, (int)r.range(-1, 3)), by = std::ldexp(1.0, (int)r.range(-1, 3)), cz = std::ldexp(1.0, (int)r.range(-1, 3));
  b(0, 0) = ax; b(1, 1) = by; b(2, 2) = cz;
  if (kind <= 4) return b;  // orthorhombic
  // reduced triclinic: |bx| <= ax/2, |cx| <= ax/2, |cy| <= by/2, multiples of 1/8 of the diagonal (including the limits)
  b(0, 1) = ax * dy(r, -4, 4, 8); b(0, 2) = ax * dy(r, -4, 4, 8); b(1, 2) = by * dy(r, -4, 4, 8);
  if (kind == 9) { b(0, 1) = ax * dy(r, -12, 12, 8); b(1, 2) = by * dy(r, -12, 12, 8); }  // not reduced
  // barely triclinic (one case in eight of the triclinic ones): tilts of 2^-30 .. 2^-17 of an edge, some of them zero; the box is
  // triclinic as soon as one off-diagonal entry is not exactly zero
  if (kind != 9 && r.coin(1, 8)) {
    b(0, 1) = r.coin(1, 3) ? 0.0 : ax * std::ldexp((double)r.range(-3, 3), -(int)r.range(17, 30));
    b(0, 2) = r.coin(1, 3) ? 0.0 : ax * std::ldexp((double)r.range(-3, 3), -(int)r.range(17, 30));
    b(1, 2) = r.coin(1, 3) ? 0.0 : by * std::ldexp((double)r.range(-3, 3), -(int)r.range(17, 30));
    if (b(0, 1) == 0 && b(0, 2) == 0 && b(1, 2) == 0) b(0, 1) = ax * std::ldexp(1.0, -24);
    return b;
  }
  if (b(0, 1) == 0 && b(0, 2) == 0 && b(1, 2) == 0) b(0, 2) = ax / 4;
  return b;
}

int main(int argc, char **argv) {
  std::string mode = argc > 1 ? argv[1] : "rand";
  long N = argc > 2 ? atol(argv[2]) : 1000;
  Rng r(env_seed() * 7919 + 2);
  if (mode == "replay") {
    std::string line;
    while (std::getline(std::cin, line)) {
      if (line.empty() || line[0] == '#') continue;
      std::vector<std::string> t = split_ws(line);
      if (t.size() < 3 + 18 + 18 + 3 || t[0] != "C02") continue;
      M b; V ri, rj;
      size_t k = 3;
      auto rd = [&]() { double x = dparse(t[k], t[k + 1]); k += 2; return x; };
      for (int c = 0; c < 3; c++) for (int i = 0; i < 3; i++) b(i, c) = rd();
      for (int i = 0; i < 3; i++) ri(i) = rd();
      for (int i = 0; i < 3; i++) rj(i) = rd();
      k += 6;
      int na = atoi(t[k].c_str()), nb = atoi(t[k + 1].c_str()), nc = atoi(t[k + 2].c_str());
      bool bead_route = !t[1].empty() && t[1].back() == 'b';
      std::string base = bead_route ? t[1].substr(0, t[1].size() - 1) : t[1];
      mic_case(base.c_str(), t[2][0], b, ri, rj, na, nb, nc, bead_route ? 1 : 0);
    }
    return 0;
  }
  for (long i = 0; i < N; i++) {
    bool exact = r.coin(2, 3);
    if (exact) {
      int kind; M b = rnd_box_exact(r, kind);
      V ri(dy(r, -64, 64, 16), dy(r, -64, 64, 16), dy(r, -64, 64, 16));
      V rj;
      int pk = (int)r.below(10);
      for (int c = 0; c < 3; c++) {
        double L = b(c, c) == 0 ? 1.0 : b(c, c);
        if (pk < 4) rj(c) = ri(c) + dy(r, -48, 48, 16);                                   // nearby
        else if (pk < 6) rj(c) = ri(c) + L * ((double)r.range(-3, 3) + 0.5);             // exact ties
        else if (pk < 8) rj(c) = ri(c) + L * (double)r.range(-5000, 5000) + dy(r, -8, 8, 16); // thousands of images away
        else rj(c) = ri(c) + L * dy(r, -32, 32, 8);                                       // multiples of L/8 (faces, ties)
      }
      char type = 'A';
      if (r.coin(1, 4)) type = kind == 0 ? 'P' : (kind <= 4 ? (r.coin() ? 'O' : 'T') : 'T');
      mic_case("mic", type, b, ri, rj, (int)r.range(-3, 3), (int)r.range(-3, 3), (int)r.range(-3, 3));
    } else {
      M b = M::Zero();
      int kind = (int)r.below(4);
      if (kind == 3) {  // arbitrary (also left-handed) cell, explicit triclinic: lattice / antisymmetry / volume clauses
        for (int i = 0; i < 3; i++) for (int j = 0; j < 3; j++) b(i, j) = (r.unit() - 0.5) * 2;
        for (int i = 0; i < 3; i++) b(i, i) = (r.coin(1, 4) ? -1 : 1) * (2 + r.unit() * 3);
        V p1((r.unit() - 0.5) * 20, (r.unit() - 0.5) * 20, (r.unit() - 0.5) * 20), p2((r.unit() - 0.5) * 20, (r.unit() - 0.5) * 20, (r.unit() - 0.5) * 20);
        mic_case("gmic", 'T', b, p1, p2, (int)r.range(-3, 3), (int)r.range(-3, 3), (int)r.range(-3, 3));
        continue;
      }
      if (kind >= 1) { b(0, 0) = 1 + r.unit() * 5; b(1, 1) = 1 + r.unit() * 5; b(2, 2) = 1 + r.unit() * 5; }
      if (kind == 2) { b(0, 1) = (r.unit() - 0.5) * b(0, 0); b(0, 2) = (r.unit() - 0.5) * b(0, 0); b(1, 2) = (r.unit() - 0.5) * b(1, 1); }
      if (kind == 2 && r.coin(1, 8)) { double eps = std::pow(10.0, -(double)r.range(5, 9)); b(0, 1) *= eps; b(0, 2) *= eps; b(1, 2) *= eps; }   // barely triclinic
      V ri((r.unit() - 0.5) * 40, (r.unit() - 0.5) * 40, (r.unit() - 0.5) * 40), rj((r.unit() - 0.5) * 40, (r.unit() - 0.5) * 40, (r.unit() - 0.5) * 40);
      if (r.coin(1, 3)) rj = ri + V((r.unit() - 0.5), (r.unit() - 0.5), (r.unit() - 0.5));
      mic_case("gmic", 'A', b, ri, rj, (int)r.range(-3, 3), (int)r.range(-3, 3), (int)r.range(-3, 3));
    }
  }
  return 0;
}
