// C13 correspondence harness: HistogramNew (Process / Normalize) and the legacy Histogram on generated streams.
// Each line is printed in two steps (inputs, flush, outputs) so that a sanitizer abort leaves the inputs behind.
#include "common.h"
#include <iostream>
#include <sstream>
#include <votca/tools/datacollection.h>
#include <votca/tools/histogram.h>
#include <votca/tools/histogramnew.h>

using namespace votca;
typedef std::vector<std::pair<double, double>> Stream;

static void emit_inputs(const char *op, int per, double mn, double mx, long n, const Stream &s) {
  printf("C13 %s %d %s %s %ld %zu", op, per, dexact(mn).c_str(), dexact(mx).c_str(), n, s.size());
  for (auto &vw : s) printf(" %s %s", dexact(vw.first).c_str(), dexact(vw.second).c_str());
  fflush(stdout);
}

static void stream(int per, double mn, double mx, long n, const Stream &s, bool norm) {
  emit_inputs(norm ? "norm" : "stream", per, mn, mx, n, s);
  tools::HistogramNew h;
  // one stream in three goes into a histogram object that was used before: set up for another range / bin count / wrap mode and filled,
  // or filled on the same grid and cleared — every stream must be binned as by a fresh object
  static long reuse_ctr = 0;
  ++reuse_ctr;
  if (reuse_ctr % 3 == 0) {
    if (reuse_ctr % 2) {
      h.setPeriodic(!per);
      h.Initialize(mn - 1.5, mx + 3.25, 2 * n + 3);
      for (auto &vw : s) h.Process(vw.first * 0.5, 1.0);
      h.Normalize();
    } else {
      h.setPeriodic(per);
      h.Initialize(mn, mx, n);
      for (auto &vw : s) h.Process(vw.first + 0.125, vw.second + 1.0);
      h.Clear();
    }
  }
  h.setPeriodic(per);
  h.Initialize(mn, mx, n);
  for (auto &vw : s) h.Process(vw.first, vw.second);
  if (norm) h.Normalize();
  for (long i = 0; i < n; i++) printf(" %s", dexact(h.data().y(i)).c_str());
  printf("\n");
  fflush(stdout);
}

static void gstream(int per, double mn, double mx, long n, double v, double w) {
  tools::HistogramNew h;
  h.setPeriodic(per);
  h.Initialize(mn, mx, n);
  printf("C13 gstream %d %s %s %ld 1 %s %s %s", per, dexact(mn).c_str(), dexact(mx).c_str(), n, dexact(h.getStep()).c_str(),
         dexact(v).c_str(), dexact(w).c_str());
  fflush(stdout);
  h.Process(v, w);
  for (long i = 0; i < n; i++) printf(" %s", dexact(h.data().y(i)).c_str());
  printf("\n");
  fflush(stdout);
}

static void legacy(int per, bool autoi, double mn, double mx, long n, const std::vector<double> &vs) {
  printf("C13 %s %d %s %s %ld %zu", autoi ? "legacy" : "legacyfix", per, dexact(mn).c_str(), dexact(mx).c_str(), n, vs.size());
  for (double v : vs) printf(" %s", dexact(v).c_str());
  fflush(stdout);
  tools::DataCollection<double> dc;
  auto *arr = dc.CreateArray("a");
  for (double v : vs) arr->push_back(v);
  tools::DataCollection<double>::selection sel;
  sel.push_back(arr);
  tools::Histogram::options_t op;
  op.n_ = n;
  op.auto_interval_ = autoi;
  op.extend_interval_ = false;
  op.min_ = mn;
  op.max_ = mx;
  op.periodic_ = per;
  op.normalize_ = false;
  op.scale_ = "no";
  tools::Histogram h(op);
  h.ProcessData(&sel);
  printf(" %s %s", dexact(h.getMin()).c_str(), dexact(h.getMax()).c_str());
  for (long i = 0; i < n; i++) printf(" %s", dexact(h.getPdf()[i]).c_str());
  printf("\n");
  fflush(stdout);
}

// legacy Histogram with the bond / angle scalings and normalisation on: the integral (sum times interval) has to be one
static void legacy_norm(const std::string &scale, double mn, double mx, long n, const std::vector<double> &vs) {
  tools::DataCollection<double> dc;
  auto *arr = dc.CreateArray("a");
  for (double v : vs) arr->push_back(v);
  tools::DataCollection<double>::selection sel;
  sel.push_back(arr);
  tools::Histogram::options_t op;
  op.n_ = n;
  op.auto_interval_ = false;
  op.extend_interval_ = false;
  op.min_ = mn;
  op.max_ = mx;
  op.periodic_ = false;
  op.normalize_ = true;
  op.scale_ = scale;
  tools::Histogram h(op);
  h.ProcessData(&sel);
  printf("C13 legacynorm %s %s %s %ld %zu", scale.c_str(), dexact(mn).c_str(), dexact(mx).c_str(), n, vs.size());
  for (long i = 0; i < n; i++) printf(" %s", dexact(h.getPdf()[i]).c_str());
  printf("\n");
  fflush(stdout);
}

static void legacy_norm_case(Rng &r) {
  static const char *scales[] = {"no", "bond", "angle"};
  std::string scale = scales[r.below(3)];
  long n = 5 + (long)r.below(40);
  double mn, mx;
  std::vector<double> vs;
  long cnt = r.coin(1, 3) ? 2000 + (long)r.below(3000) : 20 + (long)r.below(400);
  // the natural ranges too: angles over [0, pi] (sin = 0 at both ends), bonds from 0 (r = 0 in the first bin); rarely the point where the
  // scaling is singular is the LAST grid point (range ending at 0) or the only one (one bin)
  int shape = (int)r.below(8);
  if (shape == 7) n = 2 + (long)r.below(2);   // two or three bins (one bin has no spacing in the legacy class: not judged)
  if (scale == "angle") {
    if (shape < 3) { mn = 0.2; mx = 2.9; } else { mn = 0.0; mx = 3.141592653589793; }
    for (long i = 0; i < cnt; i++) vs.push_back(mn + 0.02 + r.unit() * (mx - mn - 0.04));
  } else {
    if (shape == 6 && scale == "bond") { mn = -2.0; mx = 0.0; }
    else { mn = shape < 3 ? 0.0 : r.coin() ? 0.1 : 3.0; mx = mn + 0.5 + r.unit() * 11; }
    for (long i = 0; i < cnt; i++) vs.push_back(mn + r.unit() * (mx - mn));
  }
  legacy_norm(scale, mn, mx, n, vs);
}

static double pick_w(Rng &r) {
  int k = (int)r.below(8);
  if (k == 0) return 0.0;
  if (k == 1) return -0.5;
  return (double)r.range(1, 24) / 8.0;
}

// exact stream: everything dyadic, steps are powers of two
static void exact_case(Rng &r, bool norm) {
  static const long ns[] = {1, 2, 3, 4, 5, 7, 8, 16};
  long n = ns[r.below(8)];
  int per = (int)r.below(2);
  double step = std::ldexp(1.0, (int)r.range(-2, 2));
  double mn = (double)r.range(-20, 20) / 4.0;
  double mx = per ? mn + step * (double)n : mn + step * (double)(n - 1);
  if (n == 1) { step = 1.0; mx = mn + (double)r.range(0, 3); }
  Stream s;
  int k = 1 + (int)r.below(norm ? 6 : 10);
  for (int j = 0; j < k; j++) {
    double v;
    int kind = (int)r.below(20);
    long q = r.range(-8 * n - 8, 8 * n + 8);           // quarter steps: centres, edges (ties), in between
    if (kind < 12) v = mn + step * (double)q / 4.0;
    else if (kind < 15) v = mn + step * (double)(n * r.range(-6, 6));        // exactly k*n bins away
    else if (kind < 16) v = mn + step * (double)(n * r.range(-6, 6)) - step / 2;  // tie k*n bins away
    else if (kind < 17) v = mn + step * (double)r.range(-4000000, 4000000);
    // far: the bin number is either well below the cast limit (2^40..2^56) or well above it (2^70..2^90)
    else if (kind < 18) v = (r.coin() ? 1 : -1) * std::ldexp(1.0, (int)(r.coin() ? r.range(40, 56) : r.range(70, 90)));
    else if (kind < 19) v = (r.coin() ? 1 : -1) * 1e300;
    else v = mn + step * ((double)r.range(0, n) - 0.5);  // edges inside
    double w = norm ? (double)r.range(1, 16) / 4.0 : pick_w(r);
    s.push_back({v, w});
  }
  if (norm) s.push_back({mn, 1.0});   // at least one accepted value
  stream(per, mn, mx, n, s, norm);
}

static void generic_case(Rng &r) {
  long n = r.range(1, 40);
  int per = (int)r.below(2);
  double mn = (r.unit() - 0.5) * 20.0;
  double mx = mn + 0.1 + r.unit() * 10.0;
  double L = mx - mn;
  double v = mn + (r.unit() * 7.0 - 3.0) * L;
  double w = 1.0 + (double)r.below(3);
  gstream(per, mn, mx, n, v, w);
}

static void legacy_case(Rng &r) {
  long n = 1 + (1L << r.range(1, 4));   // n-1 a power of two -> interval exact
  int per = (int)r.below(2);
  std::vector<double> vs;
  int k = 1 + (int)r.below(12);
  int sign = (int)r.below(3);           // all negative, all positive, mixed
  for (int j = 0; j < k; j++) {
    double a = (double)r.range(1, 64) / 4.0;
    vs.push_back(sign == 0 ? -a : sign == 1 ? a : (r.coin() ? a : -a));
  }
  // a zero-width data set has no bin width (division by zero in the legacy class): outside the property
  if (vs.size() < 2) vs.push_back(vs[0] + 1.0);
  if (vs[0] == vs[1]) vs[1] = vs[0] + (sign == 0 ? -0.25 : 0.25);
  if (r.coin(2, 3)) legacy(per, true, 0, 1, n, vs);
  else {
    double mn = (double)r.range(-8, 8) / 2.0;
    double mx = mn + (double)(n - 1) * std::ldexp(1.0, (int)r.range(-1, 1));
    legacy(per, false, mn, mx, n, vs);
  }
}

int main(int argc, char **argv) {
  std::string mode = argc > 1 ? argv[1] : "rand";
  long N = argc > 2 ? atol(argv[2]) : 2000;
  Rng r(env_seed() * 7919 + 13);
  if (mode == "replay") {
    std::string line;
    while (std::getline(std::cin, line)) {
      if (line.empty() || line[0] == '#') continue;
      std::vector<std::string> t = split_ws(line);
      if (t.size() < 9 || t[0] != "C13") continue;
      int per = atoi(t[2].c_str());
      double mn = dparse(t[3], t[4]), mx = dparse(t[5], t[6]);
      long n = atol(t[7].c_str());
      size_t k = (size_t)atol(t[8].c_str());
      if (t[1] == "stream" || t[1] == "norm") {
        Stream s;
        for (size_t j = 0; j < k && 12 + 4 * j < t.size() + 0; j++) s.push_back({dparse(t[9 + 4 * j], t[10 + 4 * j]), dparse(t[11 + 4 * j], t[12 + 4 * j])});
        stream(per, mn, mx, n, s, t[1] == "norm");
      } else if (t[1] == "gstream" && t.size() >= 15) {
        gstream(per, mn, mx, n, dparse(t[11], t[12]), dparse(t[13], t[14]));
      } else if (t[1] == "legacy" || t[1] == "legacyfix") {
        std::vector<double> vs;
        for (size_t j = 0; j < k && 10 + 2 * j < t.size() + 0; j++) vs.push_back(dparse(t[9 + 2 * j], t[10 + 2 * j]));
        legacy(per, t[1] == "legacy", mn, mx, n, vs);
      }
    }
    return 0;
  }
  for (long i = 0; i < N; i++) {
    int k = (int)r.below(10);
    if (k < 5) exact_case(r, false);
    else if (k < 6) exact_case(r, true);
    else if (k < 8) generic_case(r);
    else if (r.coin(1, 3)) legacy_norm_case(r);
    else legacy_case(r);
  }
  return 0;
}
