// C16 correspondence harness: graph algorithms of tools (components, single network, BF distance labelling, reduce/expand,
// structure ids) and csg::BeadStructure equivalence on all small labelled graphs and random larger ones.
#include "common.h"
#include <algorithm>
#include <set>
#include <sstream>
#include <votca/csg/beadstructure.h>
#include <votca/tools/graph.h>
#include <votca/tools/graph_bf_visitor.h>
#include <votca/tools/graphalgorithm.h>
#include <votca/tools/graphdistvisitor.h>
#include <votca/tools/reducedgraph.h>
using namespace votca;
using namespace votca::tools;

struct B { Index id; std::string name; double mass; Index getId() const { return id; } std::string getName() const { return name; } double getMass() const { return mass; } };

struct G { std::vector<Index> ids; std::vector<std::pair<int, int>> edges; std::vector<int> attr; };  // edges by position in ids

static Graph mk(const G &g) {
  std::vector<Edge> es;
  for (auto &e : g.edges) es.push_back(Edge(g.ids[e.first], g.ids[e.second]));
  std::unordered_map<Index, GraphNode> nodes;
  for (size_t i = 0; i < g.ids.size(); i++) nodes[g.ids[i]] = GraphNode();
  return Graph(es, nodes);
}

static csg::BeadStructure mkbs(const G &g, const std::vector<int> &order, Index shift, int changed) {
  csg::BeadStructure s;
  static const char *names[] = {"C", "H", "O"};
  static const double masses[] = {12.0, 1.0, 16.0};
  for (int i : order) { int a = g.attr[i]; if (i == changed) a = (a + 1) % 3; s.AddBead(B{g.ids[i] + shift, names[a], masses[a]}); }
  for (auto it = g.edges.rbegin(); it != g.edges.rend(); ++it) s.ConnectBeads(g.ids[it->first] + shift, g.ids[it->second] + shift);
  return s;
}

static void graph_case(const G &g) {
  std::ostringstream o;
  o << "C16 graph " << g.ids.size();
  for (Index v : g.ids) o << " " << v;
  o << " " << g.edges.size();
  for (auto &e : g.edges) o << " " << g.ids[e.first] << " " << g.ids[e.second];
  Graph gr = mk(g);
  // observed adjacency order (unordered containers inside)
  o << " |";
  for (Index v : g.ids) {
    std::vector<Edge> ne = gr.getNeighEdges(v);
    o << " " << ne.size();
    for (Edge &e : ne) o << " " << e.getOtherEndPoint(v);
  }
  // components
  o << " | ";
  try {
    std::vector<Graph> parts = decoupleIsolatedSubGraphs(gr);
    o << parts.size();
    for (Graph &p : parts) {
      std::vector<Index> vs = p.getVertices();
      std::sort(vs.begin(), vs.end());
      std::vector<Edge> es = p.getEdges();
      o << " " << vs.size();
      for (Index v : vs) o << " " << v;
      o << " " << es.size();
    }
  } catch (std::exception &) { o << "X"; }
  // single network
  {
    Graph g2 = mk(g);
    Graph_BF_Visitor bv;
    if (!g.ids.empty()) bv.setStartingVertex(g.ids[0]);
    int sn = -1;
    try { sn = g.ids.empty() ? -1 : (singleNetwork(g2, bv) ? 1 : 0); } catch (std::exception &) { sn = -2; }
    o << " | " << sn;
  }
  // distance labels from up to three starting vertices
  size_t ns = std::min<size_t>(3, g.ids.size());
  o << " | " << ns;
  for (size_t s = 0; s < ns; s++) {
    Graph g2 = mk(g);
    GraphDistVisitor dv;
    dv.setStartingVertex(g.ids[s]);
    exploreGraph(g2, dv);
    std::set<Index> ex = dv.getExploredVertices();
    o << " " << g.ids[s];
    for (Index v : g.ids) { GraphNode n = g2.getNode(v); o << " " << (ex.count(v) ? n.getInt("Dist") : -1); }
  }
  // reduce / expand
  {
    std::string r = "X";
    try {
      ReducedGraph rg = reduceGraph(gr);
      Graph ex = rg.expandGraph();
      std::vector<Index> v1 = gr.getVertices(), v2 = ex.getVertices();
      std::sort(v1.begin(), v1.end()); std::sort(v2.begin(), v2.end());
      std::vector<Edge> e1 = gr.getEdges(), e2 = ex.getEdges();
      std::set<Edge> s1(e1.begin(), e1.end()), s2(e2.begin(), e2.end());
      r = std::string(v1 == v2 ? "1" : "0") + (s1 == s2 && e1.size() == e2.size() ? "1" : "0");
    } catch (std::exception &e) { r = "X"; }
    o << " | " << r;
  }
  // structure id of the labelled graph (node contents as csg::BeadStructure builds them), and of a renumbered copy built in reverse order
  {
    static const char *names[] = {"C", "H", "O"};
    static const double masses[] = {12.0, 1.0, 16.0};
    auto mkl = [&](bool rev, Index shift) {
      std::vector<Edge> es;
      if (!rev) for (auto &e : g.edges) es.push_back(Edge(g.ids[e.first] + shift, g.ids[e.second] + shift));
      else for (auto it = g.edges.rbegin(); it != g.edges.rend(); ++it) es.push_back(Edge(g.ids[it->second] + shift, g.ids[it->first] + shift));
      std::unordered_map<Index, GraphNode> nodes;
      for (size_t q = 0; q < g.ids.size(); q++) {
        size_t i = rev ? g.ids.size() - 1 - q : q;
        GraphNode gn;
        std::unordered_map<std::string, double> a1; a1["Mass"] = masses[g.attr[i]];
        std::unordered_map<std::string, std::string> a2; a2["Name"] = names[g.attr[i]];
        gn.setDouble(a1); gn.setStr(a2);
        nodes[g.ids[i] + shift] = gn;
      }
      return Graph(es, nodes);
    };
    o << " | S";
    try {
      Graph a = mkl(false, 0), b = mkl(true, 1000);
      for (Index v : g.ids) o << " " << hexs(a.getNode(v).getStringId());
      std::string ida = findStructureId<GraphDistVisitor>(a), idb = findStructureId<GraphDistVisitor>(b);
      o << " " << hexs(ida) << " " << hexs(idb);
    } catch (std::exception &) { o << " X"; }
  }
  // structure equivalence under relabelling / insertion order, and separation by attributes
  {
    std::vector<int> fwd, rev;
    for (size_t i = 0; i < g.ids.size(); i++) { fwd.push_back((int)i); rev.insert(rev.begin(), (int)i); }
    std::string r = "-";
    if (!g.ids.empty()) {
      try {
        csg::BeadStructure a = mkbs(g, fwd, 0, -1), b = mkbs(g, rev, 1000, -1), c = mkbs(g, fwd, 0, 0);
        r = std::string(a.isStructureEquivalent(b) ? "1" : "0") + (a.isStructureEquivalent(c) ? "1" : "0");
      } catch (std::exception &) { r = "X"; }
    }
    o << " | " << r;
    o << " " << g.attr.size();
    for (int a : g.attr) o << " " << a;
  }
  printf("%s\n", o.str().c_str());
}


static void sep_eval(const std::string &kname, const std::vector<B> &a, const std::vector<std::pair<int, int>> &es,
                     const std::vector<B> &b, const std::vector<std::pair<int, int>> &esb) {
  auto build = [&](const std::vector<B> &bs, const std::vector<std::pair<int, int>> &ed) {
    csg::BeadStructure s;
    for (const B &x : bs) s.AddBead(x);
    for (auto &e : ed) s.ConnectBeads(bs[e.first].id, bs[e.second].id);
    return s;
  };
  std::ostringstream o;
  o << "C16 sep " << kname << " " << a.size();
  for (const B &x : a) o << " " << hexs(x.name) << " " << dexact(x.mass);
  o << " " << es.size();
  for (auto &e : es) o << " " << e.first << " " << e.second;
  o << " " << b.size();
  for (const B &x : b) o << " " << hexs(x.name) << " " << dexact(x.mass);
  o << " " << esb.size();
  for (auto &e : esb) o << " " << e.first << " " << e.second;
  std::string flag;
  try { csg::BeadStructure sa = build(a, es), sb = build(b, esb); flag = sa.isStructureEquivalent(sb) ? "1" : "0"; } catch (std::exception &) { flag = "X"; }
  o << " => " << flag;
  printf("%s\n", o.str().c_str());
}

// separation clause: "structures whose multisets of bead names and masses differ are reported as different" — pairs of structures that differ
// in one name, in one mass (by a relative amount from 1e-2 down to 1e-13), or whose names are chosen so that the separator-free concatenation
// of the node strings coincides; plus identical copies as controls.  The driver judges the reported flag against the multisets.
static void sep_case(Rng &r) {
  static const char *nm[] = {"A", "B", "C", "CH2", "N1"};
  static const double ms[] = {1.0, 12.0, 15.999, 14.0067, 1.00784};
  int n = 1 + (int)r.below(5);
  std::vector<B> a;
  for (int i = 0; i < n; i++) a.push_back(B{(Index)(i + 1), nm[r.below(5)], ms[r.below(5)]});
  std::vector<std::pair<int, int>> es;
  for (int i = 1; i < n; i++) if (!r.coin(1, 4)) es.push_back({(int)r.below(i), i});
  std::vector<B> b = a;
  std::vector<std::pair<int, int>> esb = es;
  int kind = (int)r.below(6);
  std::string kname;
  int t = (int)r.below(n);
  if (kind == 0) { kname = "name"; std::string o = b[t].name; do { b[t].name = nm[r.below(5)]; } while (b[t].name == o); }
  else if (kind == 1) { int k = 2 + (int)r.below(5); kname = "mass-coarse:1e-" + std::to_string(k); b[t].mass = a[t].mass * (1.0 + std::pow(10.0, -k)); }
  else if (kind == 2) { int k = 9 + (int)r.below(5); kname = "mass-fine:1e-" + std::to_string(k); b[t].mass = a[t].mass * (1.0 + std::pow(10.0, -k)); }
  else if (kind == 3) {
    // two unbonded beads n1 < n2 of one mass against ONE bead whose name is n2 followed by the node string of n1
    kname = "concat";
    double m = ms[r.below(5)];
    int i1 = (int)r.below(4), i2 = i1 + 1 + (int)r.below(4 - i1);
    std::vector<std::string> sorted = {"A", "B", "C", "CH2", "N1"};
    a = {B{1, sorted[i1], m}, B{2, sorted[i2], m}}; es.clear();
    GraphNode gn; std::unordered_map<std::string, double> d; d["Mass"] = m; std::unordered_map<std::string, std::string> sv; sv["Name"] = sorted[i1];
    gn.setDouble(d); gn.setStr(sv);
    b = {B{1, sorted[i2] + gn.getStringId(), m}}; esb.clear();
  } else { kname = "same"; std::reverse(b.begin(), b.end()); for (auto &x : b) x.id += 500; for (auto &e : esb) { e.first = n - 1 - e.first; e.second = n - 1 - e.second; } }
  sep_eval(kname, a, es, b, esb);
}

int main(int argc, char **argv) {
  std::string mode = argc > 1 ? argv[1] : "exh";
  long N = argc > 2 ? atol(argv[2]) : 5;
  Rng r(env_seed() * 7919 + 16);
  if (mode == "replay") {
    std::string line;
    while (std::getline(std::cin, line)) {
      if (line.empty() || line[0] == '#') continue;
      std::vector<std::string> t = split_ws(line);
      if (t.size() < 4 || t[0] != "C16") continue;
      if (t[1] == "sep") {
        size_t q = 3;
        auto beads = [&](Index base) { std::vector<B> v; int n = atoi(t[q++].c_str()); for (int i = 0; i < n; i++) { std::string nm = unhexs(t[q]); double m = dparse(t[q + 1], t[q + 2]); q += 3; v.push_back(B{base + i + 1, nm, m}); } return v; };
        auto edges = [&]() { std::vector<std::pair<int, int>> v; int m = atoi(t[q++].c_str()); for (int i = 0; i < m; i++) { v.push_back({atoi(t[q].c_str()), atoi(t[q + 1].c_str())}); q += 2; } return v; };
        std::vector<B> a = beads(0); auto es = edges(); std::vector<B> b = beads(500); auto esb = edges();
        sep_eval(t[2], a, es, b, esb);
        continue;
      }
      G g; size_t k = 2;
      int n = atoi(t[k++].c_str());
      for (int i = 0; i < n; i++) g.ids.push_back(atol(t[k++].c_str()));
      int m = atoi(t[k++].c_str());
      for (int i = 0; i < m; i++) {
        Index a = atol(t[k++].c_str()), b = atol(t[k++].c_str());
        int ia = (int)(std::find(g.ids.begin(), g.ids.end(), a) - g.ids.begin()), ib = (int)(std::find(g.ids.begin(), g.ids.end(), b) - g.ids.begin());
        g.edges.push_back({ia, ib});
      }
      // attributes are the last n tokens
      for (int i = 0; i < n; i++) g.attr.push_back(atoi(t[t.size() - n + i].c_str()));
      graph_case(g);
    }
    return 0;
  }
  if (mode == "sep") { for (long i = 0; i < N; i++) sep_case(r); return 0; }
  if (mode == "exh") {
    // every labelled simple graph on 1..N vertices
    for (int n = 1; n <= N; n++) {
      std::vector<std::pair<int, int>> all;
      for (int i = 0; i < n; i++) for (int j = i + 1; j < n; j++) all.push_back({i, j});
      for (unsigned long mask = 0; mask < (1UL << all.size()); mask++) {
        G g;
        for (int i = 0; i < n; i++) { g.ids.push_back(i + 1); g.attr.push_back((int)((mask >> i) + i) % 3); }
        for (size_t e = 0; e < all.size(); e++) if (mask & (1UL << e)) g.edges.push_back(all[e]);
        graph_case(g);
      }
    }
    return 0;
  }
  for (long i = 0; i < N; i++) {
    G g;
    int n = 1 + (int)r.below(r.coin(1, 5) ? 40 : 12);
    std::set<Index> used;
    for (int k = 0; k < n; k++) { Index id; do { id = r.coin(1, 3) ? r.range(-50, 50) : r.range(0, 100000); } while (used.count(id)); used.insert(id); g.ids.push_back(id); g.attr.push_back((int)r.below(3)); }
    int kind = (int)r.below(6);
    std::set<std::pair<int, int>> es;
    auto add = [&](int a, int b) { if (a != b) es.insert({std::min(a, b), std::max(a, b)}); };
    if (kind == 0) for (int k = 0; k + 1 < n; k++) add(k, k + 1);                       // chain
    else if (kind == 1) { for (int k = 0; k + 1 < n; k++) add(k, k + 1); if (n > 2) add(n - 1, 0); }   // ring
    else if (kind == 2) for (int k = 1; k < n; k++) add(0, k);                         // star
    else if (kind == 3) for (int k = 1; k < n; k++) add((int)r.below(k), k);           // tree
    else if (kind == 4) { for (int k = 0; k + 1 < n; k++) if (!r.coin(1, 5)) add(k, k + 1); int extra = (int)r.below(n); for (int q = 0; q < extra; q++) add((int)r.below(n), (int)r.below(n)); }  // fused rings / mixtures
    else { int m = (int)r.below(2 * n); for (int q = 0; q < m; q++) add((int)r.below(n), (int)r.below(n)); }
    for (auto &e : es) g.edges.push_back(e);
    graph_case(g);
  }
  return 0;
}
