// C18 correspondence harness: runs the real wildcmp / RangeParser / IndexParser / BeadList on
// generated inputs and prints one protocol line per case (implementation output included).
#include "common.h"
#include <iostream>
#include <sstream>
#include <votca/csg/beadlist.h>
#include <votca/csg/topology.h>
#include <votca/tools/rangeparser.h>
#include <votca/tools/tokenizer.h>
#include <votca/xtp/IndexParser.h>

using namespace votca;
static const int BUDGET = 64;

static void wild(const std::string &p, const std::string &s) {
  printf("C18 wild %s %s %d\n", hexs(p).c_str(), hexs(s).c_str(), tools::wildcmp(p, s) ? 1 : 0);
}

static void all_strings(const std::string &alpha, int maxlen, std::vector<std::string> &out) {
  out.push_back("");
  size_t start = 0;
  for (int l = 1; l <= maxlen; l++) {
    size_t end = out.size();
    for (size_t i = start; i < end; i++)
      for (char c : alpha) out.push_back(out[i] + c);
    start = end;
  }
}

// returns false if parse threw
static bool run_range(const std::string &e, std::string &seq, std::string &printed) {
  tools::RangeParser rp;
  try {
    rp.Parse(e);
  } catch (std::exception &) {
    return false;
  }
  std::ostringstream os;
  os << rp;
  printed = os.str();
  int n = 0;
  std::ostringstream vs;
  auto it = rp.begin();
  for (; it != rp.end() && n < BUDGET; ++it) {
    vs << " " << *it;
    n++;
  }
  bool fin = !(it != rp.end());
  std::ostringstream o;
  o << (fin ? 1 : 0);
  seq = o.str();
  std::ostringstream o2;
  o2 << n << vs.str();
  printed = hexs(printed) + " " + o2.str();
  return true;
}

static void range(const std::string &e) {
  std::string fin, rest;
  if (!run_range(e, fin, rest)) {
    printf("C18 range %s %d ERR\n", hexs(e).c_str(), BUDGET);
    return;
  }
  printf("C18 range %s %d OK %s %s\n", hexs(e).c_str(), BUDGET, fin.c_str(), rest.c_str());
  // print -> parse again
  tools::RangeParser rp;
  rp.Parse(e);
  std::ostringstream os;
  os << rp;
  std::string pr = os.str(), fin2, rest2;
  if (!run_range(pr, fin2, rest2)) {
    printf("C18 reprint %s %s %d ERR\n", hexs(e).c_str(), hexs(pr).c_str(), BUDGET);
  } else {
    // rest2 = "<hexprinted> n v..." ; drop the printed part
    std::string tail = rest2.substr(rest2.find(' ') + 1);
    printf("C18 reprint %s %s %d OK %s %s\n", hexs(e).c_str(), hexs(pr).c_str(), BUDGET, fin2.c_str(), tail.c_str());
  }
}

static std::string ints(const std::vector<Index> &v) {
  std::ostringstream o;
  o << v.size();
  for (Index x : v) o << " " << x;
  return o.str();
}

static void ivec(const std::string &s) {
  xtp::IndexParser ip;
  try {
    std::vector<Index> v = ip.CreateIndexVector(s);
    printf("C18 ivec %s OK %s\n", hexs(s).c_str(), ints(v).c_str());
  } catch (std::exception &) {
    printf("C18 ivec %s ERR\n", hexs(s).c_str());
  }
}

static void istr(const std::vector<Index> &v) {
  xtp::IndexParser ip;
  std::string s = ip.CreateIndexString(v);
  try {
    std::vector<Index> w = ip.CreateIndexVector(s);
    printf("C18 istr %s %s OK %s\n", ints(v).c_str(), hexs(s).c_str(), ints(w).c_str());
  } catch (std::exception &) {
    printf("C18 istr %s %s ERR\n", ints(v).c_str(), hexs(s).c_str());
  }
}

static void select(const std::string &sel, const std::vector<std::pair<std::string, std::string>> &beads) {
  csg::Topology top;
  for (auto &b : beads) {
    if (!top.BeadTypeExist(b.second)) top.RegisterBeadType(b.second);
    top.CreateBead(csg::Bead::spherical, b.first, b.second, 0, 1.0, 0.0);
  }
  csg::BeadList bl;
  bl.Generate(top, sel);
  std::ostringstream o;
  o << "C18 select " << hexs(sel) << " " << beads.size();
  for (auto &b : beads) o << " " << hexs(b.first) << " " << hexs(b.second);
  o << " " << bl.size();
  for (auto *b : bl) o << " " << b->getId();
  printf("%s\n", o.str().c_str());
}

static std::string rnd_string(Rng &r, const std::string &alpha, int maxlen) {
  int n = (int)r.below(maxlen + 1);
  std::string s;
  for (int i = 0; i < n; i++) s.push_back(alpha[r.below(alpha.size())]);
  return s;
}

int main(int argc, char **argv) {
  std::string mode = argc > 1 ? argv[1] : "exh";
  int L = argc > 2 ? atoi(argv[2]) : 5;
  long N = argc > 3 ? atol(argv[3]) : 2000;
  Rng r(env_seed() * 7919 + 18);
  if (mode == "replay") {  // protocol lines on stdin: the inputs are re-run, recorded outputs ignored
    std::string line;
    while (std::getline(std::cin, line)) {
      if (line.empty() || line[0] == '#') continue;
      std::vector<std::string> t = split_ws(line);
      if (t.size() < 3 || t[0] != "C18") continue;
      if (t[1] == "wild" && t.size() >= 4) wild(unhexs(t[2]), unhexs(t[3]));
      else if (t[1] == "range") range(unhexs(t[2]));
      else if (t[1] == "reprint") range(unhexs(t[2]));
      else if (t[1] == "ivec") ivec(unhexs(t[2]));
      else if (t[1] == "istr") {
        std::vector<Index> v;
        long n = atol(t[2].c_str());
        for (long i = 0; i < n && 3 + i < (long)t.size(); i++) v.push_back(atol(t[3 + i].c_str()));
        istr(v);
      } else if (t[1] == "select" && t.size() >= 4) {
        long n = atol(t[3].c_str());
        std::vector<std::pair<std::string, std::string>> beads;
        for (long i = 0; i < n && 5 + 2 * i < (long)t.size(); i++) beads.push_back({unhexs(t[4 + 2 * i]), unhexs(t[5 + 2 * i])});
        select(unhexs(t[2]), beads);
      }
    }
    return 0;
  }
  if (mode == "exh") {
    std::vector<std::string> pats, strs;
    all_strings("ab*?", L, pats);
    all_strings("ab", L, strs);
    for (auto &p : pats)
      for (auto &s : strs) wild(p, s);
    // ranges: every begin/stride/end in [-3,3], the three block forms, and pairs of blocks
    std::vector<std::string> blocks;
    for (int b = -3; b <= 3; b++) {
      blocks.push_back(std::to_string(b));
      for (int e = -3; e <= 3; e++) {
        blocks.push_back(std::to_string(b) + ":" + std::to_string(e));
        for (int s = -3; s <= 3; s++) blocks.push_back(std::to_string(b) + ":" + std::to_string(s) + ":" + std::to_string(e));
      }
    }
    for (auto &b : blocks) range(b);
    for (size_t i = 0; i < blocks.size(); i += 7)
      for (size_t j = 3; j < blocks.size(); j += 11) range(blocks[i] + "," + blocks[j]);
    const char *mal[] = {"", " ", ",", ":", "::", "1::5", "1:2:", ":1", "1:", "a", "1:a", "a:1", "1:2:3:4", "1:2:3:4:5",
                         "3abc", "1:2x:5", "99999999999", "1:99999999999", "-", "+", "+5", "1, 2", " 1 : 2 : 9 ", "1,,2", ",1", "1,",
                         "1:0:1", "1:0:2", "5:-1:1", "5:-2:0", "-1", "-1:1", "-3:-1", "2147483647", "2147483648", "-2147483648",
                         "0:2147483647:2147483647", "1 2", "1\t2", "\t5", "5\t", "1:+2:7", "1:-0:1", "0x10", "1e2", "1.5", "1:1:1", "7:7", "7:3:7",
                         "2:1", "1:-1:5", "5:1:1", "1:5,3:-1:1", "1:2,,3:4", "1:2;3"};
    for (const char *m : mal) range(m);
    return 0;
  }
  // random stream
  for (long i = 0; i < N; i++) {
    int k = (int)r.below(10);
    if (k < 3) {
      // longer patterns over a larger alphabet, strings built to match often
      std::string p = rnd_string(r, "abc*?*", 3 + L * 2);
      std::string s;
      if (r.coin()) {
        for (char c : p) {
          if (c == '*') s += rnd_string(r, "abc", 3);
          else if (c == '?') s.push_back("abc"[r.below(3)]);
          else s.push_back(c);
        }
        if (r.coin(1, 4) && !s.empty()) s[r.below(s.size())] = 'c';
      } else s = rnd_string(r, "abc", 3 + L * 2);
      wild(p, s);
    } else if (k < 6) {
      // structured range expressions, mostly valid
      std::string e;
      int nb = 1 + (int)r.below(3);
      for (int b = 0; b < nb; b++) {
        if (b) e += r.coin(1, 8) ? " , " : ",";
        long bg = r.range(-20, 20), st = r.range(-4, 6), en = r.coin(3, 4) ? bg + (st >= 0 ? 1 : -1) * r.range(0, 30) : r.range(-20, 20);
        int form = (int)r.below(3);
        e += std::to_string(bg);
        if (form == 1) e += ":" + std::to_string(en);
        if (form == 2) e += ":" + std::to_string(st) + ":" + std::to_string(en);
      }
      range(e);
    } else if (k < 7) {
      range(rnd_string(r, "0123456789+-:, a", 8));   // malformed stream
    } else if (k < 8) {
      std::vector<Index> v;
      int n = (int)r.below(12);
      long base = r.range(-5, 50);
      for (int j = 0; j < n; j++) v.push_back(base + r.range(0, 14));
      istr(v);
    } else if (k < 9) {
      if (r.coin(2, 3)) {
        std::string s;
        int n = (int)r.below(6);
        for (int j = 0; j < n; j++) {
          long a = r.range(-3, 30);
          if (j) s += r.coin() ? " " : (r.coin() ? "," : "\t");
          s += std::to_string(a);
          if (r.coin(1, 3)) s += ":" + std::to_string(a + r.range(-2, 6));
        }
        ivec(s);
      } else ivec(rnd_string(r, "0123456789-: ,a+", 8));
    } else {
      std::vector<std::pair<std::string, std::string>> beads;
      int n = (int)r.below(7);
      for (int j = 0; j < n; j++) beads.push_back({rnd_string(r, "ABn", 3) + "x", rnd_string(r, "AB", 2) + "t"});
      std::string sel = r.coin() ? rnd_string(r, "AB*?xt", 4) : "name:" + rnd_string(r, "ABn*?x", 4);
      if (r.coin(1, 10)) sel = rnd_string(r, "name:", 5) + rnd_string(r, "AB*", 2);
      select(sel, beads);
    }
  }
  return 0;
}
