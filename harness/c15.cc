// C15 correspondence harness: eeInteractor::CalcStaticEnergy_site on generated StaticSite pairs of every rank combination
// (both orders, translated, rotated with their moments), the same energy from explicit Coulomb sums over point-charge
// clusters that realise the moments (two cluster sizes), ApplyStaticField_site against finite differences of the energy in the
// dipole of the polarisable site, and the Thole tensor.
#include "common.h"
#include <sstream>
#define private public
#define protected public
#include <votca/xtp/eeinteractor.h>
#undef private
#undef protected
#include <votca/xtp/classicalsegment.h>
#include <votca/xtp/polarsite.h>
#include <votca/xtp/staticsite.h>
using namespace votca;
using namespace votca::xtp;
typedef Eigen::Vector3d V3d;
typedef Eigen::Matrix3d M;

static std::string v3(const V3d &v) { return dexact(v.x()) + " " + dexact(v.y()) + " " + dexact(v.z()); }

struct Charge { V3d r; double q; };

// point charges realising the site's moments with cluster size h
static std::vector<Charge> cluster(const StaticSite &s, double h) {
  std::vector<Charge> c;
  c.push_back({s.getPos(), s.getCharge()});
  if (s.getRank() > 0) {
    V3d mu = s.getDipole();
    double m = mu.norm();
    if (m > 0) {
      V3d u = mu / m;
      c.push_back({s.getPos() + h * u, m / (2 * h)});
      c.push_back({s.getPos() - h * u, -m / (2 * h)});
    }
  }
  if (s.getRank() > 1) {
    M theta = s.CalculateCartesianMultipole();     // traceless, Theta_ab = sum q (3/2 r_a r_b - 1/2 r^2 delta_ab)
    Eigen::SelfAdjointEigenSolver<M> es(theta);
    for (int k = 0; k < 3; k++) {
      double strength = 2.0 / 3.0 * es.eigenvalues()(k);   // linear quadrupole (+c, -2c, +c) with 2 c h^2 = strength
      double cq = strength / (2 * h * h);
      V3d e = es.eigenvectors().col(k);
      c.push_back({s.getPos() + h * e, cq});
      c.push_back({s.getPos() - h * e, cq});
      c.push_back({s.getPos(), -2 * cq});
    }
  }
  return c;
}

static double coulomb(const std::vector<Charge> &a, const std::vector<Charge> &b) {
  double e = 0;
  for (auto &x : a) for (auto &y : b) e += x.q * y.q / (x.r - y.r).norm();
  return e;
}

static StaticSite make(Rng &r, int rank, const V3d &pos, bool dyadic) {
  StaticSite s(0, "C", pos);
  Eigen::Matrix<double, 9, 1> Q = Eigen::Matrix<double, 9, 1>::Zero();
  auto val = [&]() { return dyadic ? (double)r.range(-8, 8) / 4.0 : (r.unit() - 0.5) * 4; };
  Q(0) = val();
  if (rank > 0) for (int i = 1; i < 4; i++) Q(i) = val();
  if (rank > 1) for (int i = 4; i < 9; i++) Q(i) = val();
  s.setMultipole(Q, rank);
  return s;
}

static std::string q9(const StaticSite &s) {
  std::ostringstream o;
  for (int i = 0; i < 9; i++) o << (i ? " " : "") << dexact(s.Q()(i));
  return o.str();
}

static void pair_case(Rng &r) {
  int ra = (int)r.below(3), rb = (int)r.below(3);
  bool dy = r.coin(1, 3);
  // separation 0.5 .. 100 bohr in any direction
  double R = 0.5 * std::pow(200.0, r.unit());
  V3d dir(r.unit() - 0.5, r.unit() - 0.5, r.unit() - 0.5);
  if (dir.norm() < 1e-3) dir = V3d(0, 0, 1);
  dir.normalize();
  if (dy) { static const double T[][3] = {{1, 0, 0}, {0, 1, 0}, {0, 0, 1}, {0.6, 0.8, 0}, {0, 0.6, -0.8}, {2.0 / 3, 1.0 / 3, 2.0 / 3}, {-3.0 / 13, 4.0 / 13, 12.0 / 13}}; const double *t = T[r.below(7)]; dir = V3d(t[0], t[1], t[2]); R = (double)(1 + r.below(40)) / 2.0; }
  V3d pa((r.unit() - 0.5) * 10, (r.unit() - 0.5) * 10, (r.unit() - 0.5) * 10);
  if (dy) pa = V3d((double)r.range(-8, 8) / 2, (double)r.range(-8, 8) / 2, (double)r.range(-8, 8) / 2);
  V3d pb = pa + R * dir;
  StaticSite A = make(r, ra, pa, dy), B = make(r, rb, pb, dy);
  eeInteractor ee;
  double e12 = ee.CalcStaticEnergy_site(A, B), e21 = ee.CalcStaticEnergy_site(B, A);
  // one pair in three is evaluated through the sibling class: polarisable sites with the same permanent moments and a non-zero
  // induced dipole left over from an induction step; the static pair energy is that of the permanent moments
  if (r.below(3) == 0) {
    PolarSite PA(0, "C", A.getPos()), PB(1, "C", B.getPos());
    PA.setMultipole(A.Q(), ra); PB.setMultipole(B.Q(), rb);
    PA.setpolarization(M::Identity() * (0.5 + r.unit())); PB.setpolarization(M::Identity() * (0.5 + r.unit()));
    PA.setInduced_Dipole(V3d(r.unit() - 0.5, r.unit() - 0.5, r.unit() - 0.5));
    PB.setInduced_Dipole(V3d(r.unit() - 0.5, r.unit() - 0.5, r.unit() - 0.5));
    e12 = ee.CalcStaticEnergy_site(PA, PB); e21 = ee.CalcStaticEnergy_site(PB, PA);
  }
  // translation
  V3d t((r.unit() - 0.5) * 50, (r.unit() - 0.5) * 50, (r.unit() - 0.5) * 50);
  StaticSite At = A, Bt = B; At.Translate(t); Bt.Translate(t);
  double et = ee.CalcStaticEnergy_site(At, Bt);
  // rotation of both sites (positions and moments) about the origin: z by the 3-4-5 angle, then x by the 5-12-13 angle
  M R1; R1 << 0.6, -0.8, 0, 0.8, 0.6, 0, 0, 0, 1;
  M R2; R2 << 1, 0, 0, 0, 5.0 / 13, -12.0 / 13, 0, 12.0 / 13, 5.0 / 13;
  M Rot = R2 * R1;
  // centre of the common rotation: the origin, any point, or the position of one of the two sites handed over as the reference
  // getPos() returns (what a caller writing seg.Rotate(R, seg[0].getPos()) does)
  StaticSite Ar = A, Br = B;
  int piv = (int)r.below(4);
  V3d centre((r.unit() - 0.5) * 20, (r.unit() - 0.5) * 20, (r.unit() - 0.5) * 20);
  const V3d zero = V3d::Zero();
  const V3d &ref = piv == 0 ? zero : piv == 1 ? centre : piv == 2 ? Ar.getPos() : Br.getPos();
  if (piv == 3) { Br.Rotate(Rot, ref); Ar.Rotate(Rot, ref); } else { Ar.Rotate(Rot, ref); Br.Rotate(Rot, ref); }
  double er = ee.CalcStaticEnergy_site(Ar, Br);
  // point-charge clusters of two sizes
  double h = 0.02 * std::min(R, 4.0);
  double c1 = coulomb(cluster(A, h), cluster(B, h)), c2 = coulomb(cluster(A, h / 2), cluster(B, h / 2));
  printf("C15 pair %d %d %s %s %s %s %s %s %s %s %s %s\n", ra, rb, v3(pa).c_str(), v3(pb).c_str(), q9(A).c_str(), q9(B).c_str(), dexact(e12).c_str(),
         dexact(e21).c_str(), dexact(et).c_str(), dexact(er).c_str(), dexact(c1).c_str(), dexact(c2).c_str());
}

// segments of several sites with different ranks: the segment energy is the sum of the site-pair energies, in both orders (the pair
// energies themselves are compared with the model by the pair cases)
static void seg_case(Rng &r) {
  int nA = 1 + (int)r.below(3), nB = 1 + (int)r.below(3);
  StaticSegment A("a", 0), B("b", 1);
  V3d cA((r.unit() - 0.5) * 4, (r.unit() - 0.5) * 4, (r.unit() - 0.5) * 4);
  V3d dir(r.unit() - 0.5, r.unit() - 0.5, r.unit() - 0.5);
  if (dir.norm() < 1e-3) dir = V3d(0, 0, 1);
  dir.normalize();
  V3d cB = cA + (4.0 + 6.0 * r.unit()) * dir;
  std::ostringstream o;
  o << "C15 seg " << nA << " " << nB;
  for (int i = 0; i < nA; i++) { int rk = (int)r.below(3); o << " " << rk; A.push_back(make(r, rk, cA + V3d(r.unit() - 0.5, r.unit() - 0.5, r.unit() - 0.5), false)); }
  for (int i = 0; i < nB; i++) { int rk = (int)r.below(3); o << " " << rk; B.push_back(make(r, rk, cB + V3d(r.unit() - 0.5, r.unit() - 0.5, r.unit() - 0.5), false)); }
  eeInteractor ee;
  double eAB = ee.CalcStaticEnergy(A, B), eBA = ee.CalcStaticEnergy(B, A), esum = 0, scale = 0;
  for (const StaticSite &a : A) for (const StaticSite &b : B) { double e = ee.CalcStaticEnergy_site(a, b); esum += e; scale += std::fabs(e); }
  o << " " << dexact(eAB) << " " << dexact(eBA) << " " << dexact(esum) << " " << dexact(scale);
  printf("%s\n", o.str().c_str());
}

static void field_case(Rng &r) {
  int ra = (int)r.below(3), rb = (int)r.below(3);
  double R = 0.5 * std::pow(200.0, r.unit());
  V3d dir(r.unit() - 0.5, r.unit() - 0.5, r.unit() - 0.5);
  if (dir.norm() < 1e-3) dir = V3d(0, 0, 1);
  dir.normalize();
  V3d pa((r.unit() - 0.5) * 10, (r.unit() - 0.5) * 10, (r.unit() - 0.5) * 10), pb = pa + R * dir;
  StaticSite A = make(r, ra, pa, false);
  // the polarisable site has any static rank, 0 included (its dipole row of the interaction is its field whatever the rank)
  StaticSite B0 = make(r, rb, pb, false);
  PolarSite P(1, "C", pb);
  P.setMultipole(B0.Q(), rb);
  P.setpolarization(M::Identity() * (0.5 + r.unit()));
  eeInteractor ee;
  StaticSegment sa("a", 0);
  sa.push_back(A);
  PolarSegment sp("p", 1);
  sp.push_back(P);
  ee.ApplyStaticField<StaticSegment, Estatic::V>(sa, sp);
  V3d field = sp[0].V();
  // derivative of the pair energy in the three dipole components of the polarisable site (the energy is affine in them)
  V3d num;
  for (int c = 0; c < 3; c++) {
    auto E = [&](double d) { StaticSite S = B0; Eigen::Matrix<double, 9, 1> Q = S.Q(); Q(1 + c) += d; S.setMultipole(Q, std::max<Index>(S.getRank(), 1)); return ee.CalcStaticEnergy_site(A, S); };   // a dipole is a rank-1 moment
    num[c] = (E(0.5) - E(-0.5));
  }
  printf("C15 field %d %d %s %s %s %s %s %s\n", ra, (int)B0.getRank(), v3(pa).c_str(), v3(pb).c_str(), q9(A).c_str(), q9(B0).c_str(), v3(field).c_str(), v3(num).c_str());
}

static void thole_case(Rng &r) {
  double R = 0.5 * std::pow(200.0, r.unit());
  V3d dir(r.unit() - 0.5, r.unit() - 0.5, r.unit() - 0.5);
  if (dir.norm() < 1e-3) dir = V3d(0, 0, 1);
  dir.normalize();
  V3d pa((r.unit() - 0.5) * 10, (r.unit() - 0.5) * 10, (r.unit() - 0.5) * 10), pb = pa + R * dir;
  PolarSite A(0, "C", pa), B(1, "C", pb);
  double a1 = 0.5 + 10 * r.unit(), a2 = 0.5 + 10 * r.unit();
  A.setpolarization(M::Identity() * a1);
  B.setpolarization(M::Identity() * a2);
  double damp = 0.1 + r.unit();
  eeInteractor ee(damp);
  M T = ee.FillTholeInteraction(A, B), T2 = ee.FillTholeInteraction(B, A);
  double au3 = damp * R * R * R * A.getSqrtInvEigenDamp() * B.getSqrtInvEigenDamp();
  std::ostringstream o;
  o << "C15 thole " << v3(pa) << " " << v3(pb) << " " << dexact(damp) << " " << dexact(A.getSqrtInvEigenDamp()) << " " << dexact(B.getSqrtInvEigenDamp()) << " "
    << dexact(au3 < 40 ? std::exp(-au3) : 0.0);
  for (int i = 0; i < 3; i++) for (int j = 0; j < 3; j++) o << " " << dexact(T(i, j));
  for (int i = 0; i < 3; i++) for (int j = 0; j < 3; j++) o << " " << dexact(T2(i, j));
  printf("%s\n", o.str().c_str());
}

int main(int argc, char **argv) {
  std::string mode = argc > 1 ? argv[1] : "rand";
  long N = argc > 2 ? atol(argv[2]) : 100;
  Rng r(env_seed() * 7919 + 15);
  if (mode == "replay") {
    std::string line;
    while (std::getline(std::cin, line)) if (line.rfind("C15", 0) == 0) printf("%s\n", line.c_str());
    return 0;
  }
  for (long i = 0; i < N; i++) {
    int k = (int)r.below(10);
    if (k < 5) pair_case(r); else if (k < 6) seg_case(r); else if (k < 8) field_case(r); else thole_case(r);
  }
  return 0;
}
