// C07 correspondence harness: IBond / IAngle / IDihedral::EvaluateVar and Grad of the real classes on generated geometries and
// boxes (with central-difference gradients of the reported value, image shifts and rigid motions), and the potential
// function forms LJ126 / LJG / CBSPL (value, first and second parameter derivatives, numerical parameter derivatives,
// SavePotTab).
#include "common.h"
#include <memory>
#include <fstream>
#include <sstream>
#include <votca/tools/eigen.h>
#define private public      // the coefficient vectors of a spline (f_, f2_) are handed from one object to another
#define protected public
#include <votca/tools/akimaspline.h>
#include <votca/tools/cubicspline.h>
#include <votca/tools/linspline.h>
#undef private
#undef protected
#include <fstream>
#include <sstream>
#include <unistd.h>
#include <votca/csg/interaction.h>
#include <votca/csg/potentialfunctions/potentialfunctioncbspl.h>
#include <votca/csg/potentialfunctions/potentialfunctionlj126.h>
#include <votca/csg/potentialfunctions/potentialfunctionljg.h>
#include <votca/csg/topology.h>
#include <votca/tools/table.h>
using namespace votca;
using namespace votca::csg;
typedef Eigen::Vector3d V;
typedef Eigen::Matrix3d M;

static std::string v3(const V &v) { return dexact(v.x()) + " " + dexact(v.y()) + " " + dexact(v.z()); }

static void build(Topology &top, const M &box, const std::vector<V> &pos) {
  top.setBox(box);
  top.CreateResidue("R");
  Molecule *mol = top.CreateMolecule("M");
  top.RegisterBeadType("A");
  for (size_t i = 0; i < pos.size(); i++) {
    Bead *b = top.CreateBead(Bead::spherical, "b" + std::to_string(i), "A", 0, 1.0, 0.0);
    b->setPos(pos[i]);
    mol->AddBead(b, "b" + std::to_string(i));
  }
}

static std::unique_ptr<Interaction> mk(int kind) {
  if (kind == 0) return std::make_unique<IBond>(0, 1);
  if (kind == 1) return std::make_unique<IAngle>(0, 1, 2);
  return std::make_unique<IDihedral>(0, 1, 2, 3);
}

static double eval(int kind, const M &box, const std::vector<V> &pos) {
  Topology top;
  build(top, box, pos);
  return mk(kind)->EvaluateVar(top);
}

// central differences with one Richardson step: error O(h^4)
static V numgrad(int kind, const M &box, const std::vector<V> &pos, int bead) {
  V g;
  // step relative to the shortest bond of the interaction
  double len = 1e9;
  {
    Topology top; build(top, box, pos);
    for (size_t i = 0; i + 1 < pos.size(); i++) len = std::min(len, top.getDist(i, i + 1).norm());
  }
  const double h = 2e-3 * len;
  for (int c = 0; c < 3; c++) {
    auto at = [&](double d) { std::vector<V> p = pos; p[bead][c] += d; return eval(kind, box, p); };
    double d1 = (at(h) - at(-h)) / (2 * h);
    double d2 = (at(2 * h) - at(-2 * h)) / (4 * h);
    g[c] = (4 * d1 - d2) / 3;
  }
  return g;
}

static void ia_emit(int kind, int bt, const M &box, const std::vector<V> &base, const std::vector<V> &other, const V &tr) {
  int nb = kind + 2;
  Topology top;
  build(top, box, base);
  auto ic = mk(kind);
  {
    // documented singular geometries (coincident beads, collinear bonds): not part of the property
    auto sin2 = [](const V &a, const V &b) { double c = a.dot(b) / std::sqrt(a.squaredNorm() * b.squaredNorm()); return 1 - c * c; };
    bool sing = false;
    for (int i = 0; i + 1 < nb; i++) if (top.getDist(i, i + 1).norm() < 1e-3) sing = true;
    if (!sing && kind == 1) sing = sin2(top.getDist(1, 0), top.getDist(1, 2)) < 1e-2;
    if (!sing && kind == 2) {
      V v1 = top.getDist(0, 1), v2 = top.getDist(1, 2), v3 = top.getDist(2, 3);
      V n1 = v1.cross(v2), n2 = v2.cross(v3);
      sing = sin2(v1, v2) < 1e-2 || sin2(v2, v3) < 1e-2 || sin2(n1, n2) < 1e-2;
    }
    if (sing) { printf("C07 ia-singular %d\n", kind); return; }
  }
  std::ostringstream o;
  o << "C07 ia " << kind << " " << v3(box.col(0)) << " " << v3(box.col(1)) << " " << v3(box.col(2));
  for (auto &q : base) o << " " << v3(q);
  o << " " << dexact(ic->EvaluateVar(top));
  for (int b = 0; b < nb; b++) o << " " << v3(ic->Grad(top, b));
  for (int b = 0; b < nb; b++) o << " " << v3(numgrad(kind, box, base, b));
  // the same interaction on other periodic images of the beads
  {
    Topology t2; build(t2, box, other);
    auto i2 = mk(kind);
    o << " " << dexact(i2->EvaluateVar(t2));
    for (int b = 0; b < nb; b++) o << " " << v3(i2->Grad(t2, b));
  }
  // rigid motion (open box only): rotation about z by the 3-4-5 angle then about x by the 5-12-13 angle, and a translation
  {
    M R1; R1 << 0.6, -0.8, 0, 0.8, 0.6, 0, 0, 0, 1;
    M R2; R2 << 1, 0, 0, 0, 5.0 / 13, -12.0 / 13, 0, 12.0 / 13, 5.0 / 13;
    M R = R2 * R1;
    std::vector<V> moved = base;
    M b2 = M::Zero();
    if (bt == 0) for (auto &q : moved) q = R * q + tr; else for (auto &q : moved) q = q + tr;
    Topology t3; build(t3, box, moved);
    auto i3 = mk(kind);
    o << " " << (bt == 0 ? 1 : 0) << " " << dexact(i3->EvaluateVar(t3));
    for (int b = 0; b < nb; b++) { V g = i3->Grad(t3, b); if (bt == 0) g = R.transpose() * g; o << " " << v3(g); }
  }
  printf("%s\n", o.str().c_str());
}


static void ia_case(Rng &r, bool lattice) {
  int kind = (int)r.below(3);
  int nb = kind + 2;
  // box: open, orthorhombic or triclinic (reduced, upper triangular)
  int bt = (int)r.below(3);
  M box = M::Zero();
  double L = 4.0 + (double)r.below(4);   // every bond component stays clear of half the box
  if (bt >= 1) { box(0, 0) = L; box(1, 1) = L + (double)r.below(3) * 0.5; box(2, 2) = L + (double)r.below(3) * 0.25; }
  if (bt == 2) { box(0, 1) = 0.25 * L * (r.unit() - 0.5); box(0, 2) = 0.25 * L * (r.unit() - 0.5); box(1, 2) = 0.25 * L * (r.unit() - 0.5); }
  std::vector<V> pos(nb);
  V p(r.unit() * L, r.unit() * L, r.unit() * L);
  for (int i = 0; i < nb; i++) {
    if (lattice) {
      // lattice-like bond vectors: many equal lengths, right angles and exactly representable coordinates
      static const int T[][3] = {{3, 4, 0}, {0, 3, 4}, {4, 0, 3}, {2, 3, 6}, {6, 2, 3}, {1, 4, 8}, {4, 4, 7}, {1, 2, 2}, {2, 1, 2}, {5, 12, 0}, {1, 0, 0}, {0, 1, 0}, {0, 0, 1}, {1, 1, 0}, {2, 6, 9}};
      const int *t = T[r.below(15)];
      double s = 1.0 / (double)(8 << r.below(3));
      V d(t[0] * s * (r.coin() ? 1 : -1), t[1] * s * (r.coin() ? 1 : -1), t[2] * s * (r.coin() ? 1 : -1));
      if (i == 0) { p = V(std::floor(p.x() * 8) / 8, std::floor(p.y() * 8) / 8, std::floor(p.z() * 8) / 8); }
      else p += d;
    } else if (i > 0) {
      double len = 0.1 + 0.9 * r.unit();
      V d(r.unit() - 0.5, r.unit() - 0.5, r.unit() - 0.5);
      if (d.norm() < 1e-3) d = V(1, 0, 0);
      p += d.normalized() * len;
    }
    pos[i] = p;
  }
  // scatter the beads over periodic images
  std::vector<V> shifted = pos;
  if (bt >= 1) for (int i = 0; i < nb; i++) shifted[i] += box * V((double)r.range(-2, 2), (double)r.range(-2, 2), (double)r.range(-2, 2));
  bool start_shifted = bt >= 1 && r.coin();
  const std::vector<V> &base = start_shifted ? shifted : pos;
  const std::vector<V> &other = start_shifted ? pos : shifted;
  ia_emit(kind, bt, box, base, other, V(r.unit() * 3, -r.unit() * 2, r.unit()));
}

template <class P>
static void numder(P &pf, int n, double r, std::ostringstream &o) {
  // numerical first and second parameter derivatives of the reported value / first derivative
  Eigen::VectorXd lam0 = pf.Params();
  for (int i = 0; i < n; i++) {
    double h = 1e-4 * std::max(1.0, std::fabs(lam0(i)));
    auto F = [&](double d) { Eigen::VectorXd l = lam0; l(i) += d; pf.setParam(l); double v = pf.CalculateF(r); pf.setParam(lam0); return v; };
    double d1 = (F(h) - F(-h)) / (2 * h), d2 = (F(2 * h) - F(-2 * h)) / (4 * h);
    o << " " << dexact((4 * d1 - d2) / 3);
  }
  for (int i = 0; i < n; i++)
    for (int j = 0; j < n; j++) {
      double h = 1e-4 * std::max(1.0, std::fabs(lam0(j)));
      auto D = [&](double d) { Eigen::VectorXd l = lam0; l(j) += d; pf.setParam(l); double v = pf.CalculateDF(i, r); pf.setParam(lam0); return v; };
      double d1 = (D(h) - D(-h)) / (2 * h), d2 = (D(2 * h) - D(-2 * h)) / (4 * h);
      o << " " << dexact((4 * d1 - d2) / 3);
    }
}

static std::string tmpname() {
  char buf[256];
  const char *d = getenv("VERIF_TMP");
  snprintf(buf, sizeof buf, "%s/c07_%d.tab", d ? d : ".", (int)getpid());
  return buf;
}

static void tab_out(PotentialFunction &pf, double step, double rmin, double rcut, bool four, std::ostringstream &o) {
  std::string fn = tmpname();
  if (four) pf.SavePotTab(fn, step, rmin, rcut); else pf.SavePotTab(fn, step);
  tools::Table t; t.Load(fn);
  unlink(fn.c_str());
  o << " " << dexact(step) << " " << dexact(rmin) << " " << dexact(rcut) << " " << t.size();
  for (Index i = 0; i < t.size(); i++) o << " " << dexact(t.x(i)) << " " << dexact(t.y(i));
}

static void pot_case(Rng &r) {
  int form = (int)r.below(3);
  double mn = 0.2 + 0.1 * (double)r.below(3), cut = 1.0 + 0.25 * (double)r.below(4);
  // r: inside, at both ends, outside on both sides
  double rr;
  switch (r.below(8)) { case 0: rr = mn; break; case 1: rr = cut; break; case 2: rr = mn * 0.5; break; case 3: rr = cut * 1.25; break; default: rr = mn + (cut - mn) * r.unit(); }
  std::ostringstream o;
  if (form == 0) {
    PotentialFunctionLJ126 pf("lj", mn, cut);
    Eigen::VectorXd lam(2); lam << 0.001 + r.unit() * 0.01, 0.01 + r.unit() * 0.1;
    pf.setParam(lam);
    o << "C07 lj126 " << dexact(lam(0)) << " " << dexact(lam(1)) << " " << dexact(mn) << " " << dexact(cut) << " " << dexact(rr) << " " << dexact(pf.CalculateF(rr));
    for (int i = 0; i < 2; i++) o << " " << dexact(pf.CalculateDF(i, rr));
    for (int i = 0; i < 2; i++) for (int j = 0; j < 2; j++) o << " " << dexact(pf.CalculateD2F(i, j, rr));
    numder(pf, 2, rr, o);
    // steps that divide the range, that do not (the last row sits at the cutoff all the same), a fine one, and one larger than the range (one row)
    static const double steps[] = {0.05, 0.1, 0.15, 0.01, 0.07, 2.0};
    tab_out(pf, steps[r.below(6)], mn, cut, r.coin(), o);
  } else if (form == 1) {
    PotentialFunctionLJG pf("ljg", mn, cut);
    Eigen::VectorXd lam(5); lam << 0.001 + r.unit() * 0.01, 0.01 + r.unit() * 0.1, (r.unit() - 0.5) * 4, 0.5 + r.unit() * 20, mn + (cut - mn) * r.unit();
    pf.setParam(lam);
    double E = std::exp(-1.0 * lam(3) * (rr - lam(4)) * (rr - lam(4)));
    o << "C07 ljg";
    for (int i = 0; i < 5; i++) o << " " << dexact(lam(i));
    o << " " << dexact(mn) << " " << dexact(cut) << " " << dexact(rr) << " " << dexact(E) << " " << dexact(pf.CalculateF(rr));
    for (int i = 0; i < 5; i++) o << " " << dexact(pf.CalculateDF(i, rr));
    for (int i = 0; i < 5; i++) for (int j = 0; j < 5; j++) o << " " << dexact(pf.CalculateD2F(i, j, rr));
    numder(pf, 5, rr, o);
  } else {
    int nlam = 8 + (int)r.below(10);
    try {
      PotentialFunctionCBSPL pf("cb", nlam, mn, cut);
      Eigen::VectorXd lam(nlam);
      for (int i = 0; i < nlam; i++) lam(i) = (r.unit() - 0.5) * 10;
      pf.Params() = lam;
      Index nopt = pf.getOptParamSize();
      if (rr > cut) rr = cut * 1.25;
      o << "C07 cbspl " << nlam << " " << dexact(mn) << " " << dexact(cut);
      for (int i = 0; i < nlam; i++) o << " " << dexact(lam(i));
      o << " " << dexact(rr) << " " << nopt << " " << dexact(pf.CalculateF(rr));
      for (Index i = 0; i < nopt; i++) o << " " << dexact(pf.CalculateDF(i, rr));
      // numerical derivative with respect to every optimised parameter (setOptParam)
      for (Index i = 0; i < nopt; i++) {
        double l0 = pf.getOptParam(i), h = 1e-3;
        pf.setOptParam(i, l0 + h); double a = pf.CalculateF(rr);
        pf.setOptParam(i, l0 - h); double b = pf.CalculateF(rr);
        pf.setOptParam(i, l0);
        o << " " << dexact((a - b) / (2 * h));
      }
      double d2 = 0;
      for (Index i = 0; i < nopt; i++) for (Index j = 0; j < nopt; j++) d2 = std::max(d2, std::fabs(pf.CalculateD2F(i, j, rr)));
      o << " " << dexact(d2);
    } catch (std::exception &e) {
      o.str(""); o << "C07 cbspl-rejected " << nlam << " " << dexact(mn) << " " << dexact(cut);
    }
  }
  printf("%s\n", o.str().c_str());
}

// ---- "for every spline type the reported derivative is the derivative of the reported spline value": Calculate / CalculateDerivative
// of the three interpolating splines at points inside every interval (the last one and the end points included), the value sampled
// on a five-point stencil so that the driver can differentiate it numerically
static void spline_case(Rng &r) {
  int type = (int)r.below(3);          // 0 linear, 1 cubic, 2 akima
  int n = 4 + (int)r.below(12);
  Eigen::VectorXd x(n), y(n);
  double h0 = 0.05 + r.unit() * 0.4;
  x(0) = (r.unit() - 0.5) * 4;
  for (int i = 1; i < n; i++) x(i) = x(i - 1) + h0 * (r.coin(2, 3) ? 1.0 : 0.4 + r.unit() * 2);
  int shape = (int)r.below(3);
  for (int i = 0; i < n; i++) y(i) = shape == 0 ? (r.unit() - 0.5) * 6 : shape == 1 ? std::sin(2 * x(i)) : 4 * (std::pow(0.3 / (std::abs(x(i)) + 0.3), 12) - std::pow(0.3 / (std::abs(x(i)) + 0.3), 6));
  std::unique_ptr<tools::Spline> sp;
  if (type == 0) sp.reset(new tools::LinSpline()); else if (type == 1) sp.reset(new tools::CubicSpline()); else sp.reset(new tools::AkimaSpline());
  bool periodic = type != 0 && r.coin(1, 4);
  if (periodic) sp->setBC(tools::Spline::splinePeriodic);
  // evaluation point: strictly inside an interval, the last interval one time in three
  int iv = r.coin(1, 3) ? n - 2 : (int)r.below(n - 1);
  double w = x(iv + 1) - x(iv);
  double rr = x(iv) + w * (0.15 + 0.7 * r.unit());
  // one spline in three has interpolated another data set before (three times finer grid on the same range) and was last asked at the
  // very point that is evaluated below: value and derivative must belong to the data set interpolated last
  if (r.coin(1, 3)) {
    long n2 = 3 * n + 1;
    Eigen::VectorXd x2(n2), y2(n2);
    for (long i = 0; i < n2; i++) { x2(i) = x(0) + (x(n - 1) - x(0)) * (double)i / (double)(n2 - 1); y2(i) = std::cos(3 * x2(i)); }
    if (periodic) y2(n2 - 1) = y2(0);
    try { sp->Interpolate(x2, y2); volatile double sink = sp->Calculate(rr); sink = sp->CalculateDerivative(rr); (void)sink; } catch (...) {}
  }
  // one cubic spline in three served ANOTHER grid with the same number of points and another spacing before, and receives the grid of this
  // case through getX() and its coefficients through setSplineData (the route of csg_fmatch and the spline potentials, which never call
  // Interpolate): whatever the object derived from the first grid must not survive
  bool defined = false;
  if (auto *cs = dynamic_cast<tools::CubicSpline *>(sp.get())) {
    if (r.coin(1, 3)) {
      try {
        Eigen::VectorXd xa(n), ya(n);
        for (int i = 0; i < n; i++) { xa(i) = x(0) + 2.5 * (x(i) - x(0)); ya(i) = std::cos(xa(i)); }
        if (periodic) ya(n - 1) = ya(0);
        cs->Interpolate(xa, ya);
        volatile double sink = cs->CalculateDerivative(0.5 * (xa(0) + xa(1))); (void)sink;
        tools::CubicSpline fresh;
        if (periodic) fresh.setBC(tools::Spline::splinePeriodic);
        fresh.Interpolate(x, y);
        cs->getX() = x;
        cs->setSplineData(fresh.f_, fresh.f2_);
        defined = true;
      } catch (...) { defined = false; }
    }
  }
  if (!defined) { try { sp->Interpolate(x, y); } catch (...) { printf("C07 splder-rejected\n"); return; } }
  double h = w * 0.02;
  double scale = y.cwiseAbs().maxCoeff() + 1.0;
  // the derivative is asked first (function arguments are evaluated in no fixed order: take the values one by one)
  double dv = sp->CalculateDerivative(rr);
  double vm2 = sp->Calculate(rr - 2 * h), vm1 = sp->Calculate(rr - h), vp1 = sp->Calculate(rr + h), vp2 = sp->Calculate(rr + 2 * h);
  printf("C07 splder %d %d %d %s %s %s %s %s %s %s %s\n", type, periodic ? 1 : 0, iv == n - 2 ? 1 : 0, dexact(rr).c_str(), dexact(h).c_str(), dexact(scale / w).c_str(),
         dexact(dv).c_str(), dexact(vm2).c_str(), dexact(vm1).c_str(), dexact(vp1).c_str(), dexact(vp2).c_str());
}

int main(int argc, char **argv) {
  std::string mode = argc > 1 ? argv[1] : "rand";
  long N = argc > 2 ? atol(argv[2]) : 100;
  Rng r(env_seed() * 7919 + 7);
  if (mode == "replay") {
    // a replay line is re-run from its inputs by the driver alone (all outputs are on the line); echo
    std::string line;
    while (std::getline(std::cin, line)) {
      std::vector<std::string> t = split_ws(line);
      if (t.size() < 3 || t[0] != "C07") continue;
      if (t[1] == "ia") {
        // re-run the real classes on the recorded box and positions
        int kind = atoi(t[2].c_str()), nb = kind + 2;
        if ((int)t.size() < 3 + 18 + 6 * nb) continue;
        auto d = [&](int k) { return dparse(t[3 + 2 * k], t[4 + 2 * k]); };
        M box; for (int c = 0; c < 3; c++) box.col(c) = V(d(3 * c), d(3 * c + 1), d(3 * c + 2));
        std::vector<V> pos(nb);
        for (int i = 0; i < nb; i++) pos[i] = V(d(9 + 3 * i), d(10 + 3 * i), d(11 + 3 * i));
        int bt = box.isZero() ? 0 : 1;
        ia_emit(kind, bt, box, pos, pos, V(0.5, -0.25, 1.0));
      } else printf("%s\n", line.c_str());   // potential-function lines carry everything; they are re-judged as recorded
    }
    return 0;
  }
  for (long i = 0; i < N; i++) {
    int k = (int)r.below(10);
    if (k < 4) ia_case(r, false); else if (k < 6) ia_case(r, true); else if (k < 7) spline_case(r); else pot_case(r);
  }
  return 0;
}
