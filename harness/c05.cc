// C05 harness: a cooperative scheduler that serialises the REAL CsgApplication worker threads through the VOTCA_VERIF
// hook events (lock request, unlock, spawn, begin, end, join).  A thread announces its next operation, parks, and runs
// only when the scheduler (which tracks mutex state from the events) picks it among the enabled ones.  Schedules are either
// enumerated exhaustively (depth-first over the choice points) or drawn from the PRNG.  Frames come from a stub trajectory
// reader registered for the extension ".vrf"; reads, evaluations and merges are logged into the same trace.
#include "common.h"
#include <functional>
#include <map>
#include <pthread.h>
#include <set>
#include <sstream>
#include <votca/csg/csgapplication.h>
#include <votca/csg/topology.h>
#include <votca/csg/topologyreader.h>
#include <votca/csg/trajectoryreader.h>
using namespace votca;
using namespace votca::csg;

namespace sch {
enum { LOCK = 1, UNLOCK = 2, SPAWN = 3, BEGIN = 4, END = 5, JOIN = 6 };
struct Pending { int kind = 0; const void *obj = nullptr; };
static pthread_mutex_t G = PTHREAD_MUTEX_INITIALIZER;
static pthread_cond_t CV = PTHREAD_COND_INITIALIZER;
static std::map<pthread_t, int> ids;          // pthread -> id (0 = main)
static std::map<const void *, int> threadObj;  // Thread* -> id
static std::vector<Pending> pend;
static std::vector<bool> parked, finished;
static std::map<const void *, bool> locked;
static int nthreads = 1, current = 0;
static bool deadlock = false;
static std::ostringstream trace;
static std::vector<int> choices;     // scripted choices (index into the enabled list), then PRNG / first
static std::vector<int> fanout;      // number of enabled threads at each decision of this run
static size_t decision = 0;
static Rng *rng = nullptr;
static std::function<std::string(const void *)> roleOf;
static std::string cfgline;

static int self() { auto it = ids.find(pthread_self()); return it == ids.end() ? -1 : it->second; }
static bool enabled(int t) {
  if (!parked[t]) return false;
  auto &p = pend[t];
  if (p.kind == LOCK) return !locked[p.obj];
  if (p.kind == JOIN) return finished[threadObj[p.obj]];
  return true;
}
static void reset() {
  ids.clear(); threadObj.clear(); locked.clear();
  pend.assign(64, Pending()); parked.assign(64, false); finished.assign(64, false);
  nthreads = 1; current = 0; deadlock = false; trace.str(""); trace.clear(); fanout.clear(); decision = 0;
  ids[pthread_self()] = 0;
}
static int choose(const std::vector<int> &en) {
  fanout.push_back((int)en.size());
  int c;
  if (decision < choices.size()) c = choices[decision] % (int)en.size();
  else if (rng) c = (int)rng->below(en.size());
  else c = 0;
  decision++;
  return en[c];
}
// called with G held
static void pickNext() {
  for (;;) {
    bool all = true;
    for (int t = 0; t < nthreads; t++) if (!parked[t] && !finished[t]) all = false;
    if (all) break;
    pthread_cond_wait(&CV, &G);
  }
  std::vector<int> en;
  for (int t = 0; t < nthreads; t++) if (enabled(t)) en.push_back(t);
  if (en.empty()) {
    bool alldone = true;
    for (int t = 0; t < nthreads; t++) if (!finished[t]) alldone = false;
    if (!alldone) {
      deadlock = true;
      // report what every thread waits for and stop the process: nothing can run any more
      std::ostringstream o;
      o << "DEADLOCK";
      for (int t = 0; t < nthreads; t++) if (!finished[t]) o << " " << t << ":" << pend[t].kind << ":" << (roleOf ? roleOf(pend[t].obj) : "?");
      printf("%s |%s | %s\n", cfgline.c_str(), trace.str().c_str(), o.str().c_str());
      fflush(stdout);
      _exit(3);
    }
    return;
  }
  current = choose(en);
  pthread_cond_broadcast(&CV);
}
static void yieldPoint(int kind, const void *obj) {
  pthread_mutex_lock(&G);
  int me = self();
  pend[me].kind = kind; pend[me].obj = obj; parked[me] = true;
  pthread_cond_broadcast(&CV);
  if (current == me || current == -1) pickNext();
  while (!(current == me && parked[me] && enabled(me))) pthread_cond_wait(&CV, &G);
  parked[me] = false;
  if (kind == LOCK) locked[obj] = true;
  if (kind == UNLOCK) locked[obj] = false;
  const char *k = kind == LOCK ? "L" : kind == UNLOCK ? "U" : kind == BEGIN ? "B" : kind == JOIN ? "J" : "?";
  trace << " " << me << ":" << k << ":" << (kind == LOCK || kind == UNLOCK ? (roleOf ? roleOf(obj) : "?") : kind == JOIN ? std::to_string(threadObj[obj]) : "-");
  pthread_mutex_unlock(&G);
}
static void note(const std::string &s) {   // pseudo-event from the running thread (it holds the baton)
  pthread_mutex_lock(&G);
  trace << " " << self() << ":" << s;
  pthread_mutex_unlock(&G);
}
}  // namespace sch

extern "C" void votca_verif_event(int kind, const void *obj, long) {
  using namespace sch;
  if (kind == SPAWN) {
    pthread_mutex_lock(&G);
    threadObj[obj] = nthreads; finished[nthreads] = false; parked[nthreads] = false; nthreads++;
    pthread_mutex_unlock(&G);
    return;
  }
  if (kind == BEGIN) {
    pthread_mutex_lock(&G);
    ids[pthread_self()] = threadObj[obj];
    pthread_mutex_unlock(&G);
    yieldPoint(kind, obj);
    return;
  }
  if (kind == END) {
    pthread_mutex_lock(&G);
    int me = self();
    finished[me] = true;
    trace << " " << me << ":E:-";
    current = -1;
    bool all = true;
    for (int t = 0; t < nthreads; t++) if (!parked[t] && !finished[t]) all = false;
    if (all) {
      std::vector<int> en;
      for (int t = 0; t < nthreads; t++) if (enabled(t)) en.push_back(t);
      if (!en.empty()) current = choose(en);
      else {
        bool alldone = true;
        for (int t = 0; t < nthreads; t++) if (!finished[t]) alldone = false;
        if (!alldone) {   // the thread that just ended was the last one able to run
          std::ostringstream o;
          o << "DEADLOCK";
          for (int t = 0; t < nthreads; t++) if (!finished[t]) o << " " << t << ":" << pend[t].kind << ":" << (roleOf ? roleOf(pend[t].obj) : "?");
          printf("%s |%s | %s\n", cfgline.c_str(), trace.str().c_str(), o.str().c_str());
          fflush(stdout);
          _exit(3);
        }
      }
    }
    pthread_cond_broadcast(&CV);
    pthread_mutex_unlock(&G);
    return;
  }
  yieldPoint(kind, obj);
}

// ---- stub file formats ------------------------------------------------------------------------------------------
static int g_file_frames = 4;
class VTop : public TopologyReader {
 public:
  bool ReadTopology(std::string, Topology &top) override {
    top.CreateResidue("R");
    top.RegisterBeadType("A");
    Molecule *m = top.CreateMolecule("M");
    Bead *b = top.CreateBead(Bead::spherical, "A1", "A", 0, 1.0, 0.0);
    b->setPos(Eigen::Vector3d::Zero());
    m->AddBead(b, "1:R:A1");
    Eigen::Matrix3d box = Eigen::Matrix3d::Identity() * 3;
    top.setBox(box);
    return true;
  }
};
class VTrj : public TrajectoryReader {
  int pos_ = 0;
 public:
  bool Open(const std::string &) override { pos_ = 0; return true; }
  bool FirstFrame(Topology &top) override { return NextFrame(top); }
  bool NextFrame(Topology &top) override {
    if (pos_ >= g_file_frames) { sch::note("R:eof"); return false; }
    top.getBead(0)->setPos(Eigen::Vector3d(pos_, 0, 0));
    top.setStep(pos_);
    top.setTime((double)pos_);
    sch::note("R:" + std::to_string(pos_));
    pos_++;
    return true;
  }
};

#define private public
#define protected public
#include <votca/csg/csgapplication.h>
#undef private
#undef protected

class App : public CsgApplication {
 public:
  bool sync = true;
  std::string ProgramName() override { return "c05"; }
  void HelpText(std::ostream &) override {}
  bool DoTrajectory() override { return true; }
  bool DoMapping() override { return false; }
  bool DoThreaded() override { return true; }
  bool SynchronizeThreads() override { return sync; }
  class W : public CsgApplication::Worker {
   public:
    std::vector<int> mine;
    void EvalConfiguration(Topology *top, Topology *) override {
      int f = (int)(top->getBead(0)->getPos().x() + 0.5);
      mine.push_back(f);
      sch::note("V:" + std::to_string(f));
    }
  };
  std::unique_ptr<CsgApplication::Worker> ForkWorker() override { return std::make_unique<W>(); }
  void MergeWorker(CsgApplication::Worker *w) override {
    auto *ww = dynamic_cast<W *>(w);
    std::string s = "M:" + std::to_string(w->getId());
    for (int f : ww->mine) s += "," + std::to_string(f);
    ww->mine.clear();
    sch::note(s);
  }
  std::string role(const void *m) {
    if (m == &traj_readerMutex_) return "rd";
    for (size_t i = 0; i < threadsMutexesIn_.size(); i++) if (threadsMutexesIn_[i].get() == m) return "in" + std::to_string(i);
    for (size_t i = 0; i < threadsMutexesOut_.size(); i++) if (threadsMutexesOut_[i].get() == m) return "out" + std::to_string(i);
    return "mg";
  }
};

struct RunCfg { int sync, nt, file, budget, first; };

static std::string run_once(const RunCfg &c) {
  sch::reset();
  {
    std::ostringstream h;
    h << "C05 run " << c.sync << " " << c.nt << " " << c.file << " " << c.budget << " " << c.first;
    sch::cfgline = h.str();
  }
  g_file_frames = c.file;
  App app;
  app.sync = c.sync;
  sch::roleOf = [&app](const void *m) { return app.role(m); };
  std::vector<std::string> av = {"c05", "--top", "t.vrf", "--trj", "t.vrf", "--nt", std::to_string(c.nt)};
  if (c.budget >= 0) { av.push_back("--nframes"); av.push_back(std::to_string(c.budget)); }
  if (c.first > 0) { av.push_back("--first-frame"); av.push_back(std::to_string(c.first)); }
  std::vector<char *> argv;
  for (auto &s : av) argv.push_back(const_cast<char *>(s.c_str()));
  std::streambuf *old = std::cout.rdbuf();
  std::ostringstream sink;
  std::cout.rdbuf(sink.rdbuf());
  std::string err;
  try { app.Exec((int)argv.size(), argv.data()); } catch (std::exception &e) { err = e.what(); }
  std::cout.rdbuf(old);
  sch::roleOf = nullptr;
  std::ostringstream o;
  o << "C05 run " << c.sync << " " << c.nt << " " << c.file << " " << c.budget << " " << c.first << " |" << sch::trace.str() << " | " << (err.empty() ? "ok" : "exc");
  return o.str();
}

int main(int argc, char **argv) {
  std::string mode = argc > 1 ? argv[1] : "rand";
  long N = argc > 2 ? atol(argv[2]) : 200;
  Rng r(env_seed() * 7919 + 5);
  TopReaderFactory().Register<VTop>("vrf");
  TrjReaderFactory().Register<VTrj>("vrf");
  if (mode == "replay") {
    // `C05 run sync nt file budget first | events…`: re-run the configuration under the recorded decisions is not possible from the
    // trace alone; the configuration is re-explored exhaustively (small) or randomly instead
    std::string line;
    while (std::getline(std::cin, line)) {
      std::vector<std::string> t = split_ws(line);
      if (t.size() < 7 || t[0] != "C05") continue;
      RunCfg c{atoi(t[2].c_str()), atoi(t[3].c_str()), atoi(t[4].c_str()), atoi(t[5].c_str()), atoi(t[6].c_str())};
      sch::rng = &r;
      for (int k = 0; k < 200; k++) { sch::choices.clear(); printf("%s\n", run_once(c).c_str()); }
    }
    return 0;
  }
  if (mode == "exh") {
    // every schedule (depth-first over the choice points) for small configurations
    long budgetRuns = N;
    for (int sync = 1; sync >= 0; sync--)
      for (int file = 1; file <= 3; file++)
        for (int bud = -1; bud <= 2; bud++) {
          if (bud == 0) continue;
          RunCfg c{sync, 2, file, bud, 0};
          sch::rng = nullptr;
          sch::choices.clear();
          long runs = 0;
          while (runs < budgetRuns) {
            printf("%s\n", run_once(c).c_str());
            runs++;
            // next schedule: increment the last choice that can still grow
            std::vector<int> ch(sch::fanout.size(), 0);
            for (size_t i = 0; i < sch::choices.size() && i < ch.size(); i++) ch[i] = sch::choices[i];
            int i = (int)ch.size() - 1;
            while (i >= 0 && ch[i] + 1 >= sch::fanout[i]) i--;
            if (i < 0) break;
            ch[i]++;
            ch.resize(i + 1);
            sch::choices = ch;
          }
        }
    return 0;
  }
  sch::rng = &r;
  for (long i = 0; i < N; i++) {
    RunCfg c;
    c.sync = r.coin(3, 4) ? 1 : 0;
    c.nt = 1 + (int)r.below(8);
    c.file = 1 + (int)r.below(r.coin() ? 4 : 20);
    c.budget = r.coin() ? -1 : (int)r.below(c.file + 3);
    c.first = r.coin(3, 4) ? 0 : 1 + (int)r.below(c.file);
    sch::choices.clear();
    // priority-change schedules: sometimes stick to a preferred thread for a stretch
    printf("%s\n", run_once(c).c_str());
  }
  return 0;
}
