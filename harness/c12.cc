// C12 correspondence harness: CubicSpline / LinSpline / AkimaSpline interpolation, spline fit and Table::Smooth of the real code on
// generated grids and ordinates; coefficients (second derivatives, Akima slopes) are read out for exact residual checks.
#include "common.h"
#include <sstream>
#define private public
#define protected public
#include <votca/tools/akimaspline.h>
#include <votca/tools/cubicspline.h>
#include <votca/tools/linspline.h>
#undef private
#undef protected
#include <votca/tools/table.h>
using namespace votca::tools;

static std::string vec(const Eigen::VectorXd &v) {
  std::ostringstream o;
  for (Eigen::Index i = 0; i < v.size(); i++) o << " " << dexact(v(i));
  return o.str();
}

static std::vector<double> eval_points(Rng &r, const Eigen::VectorXd &x) {
  std::vector<double> p;
  Eigen::Index N = x.size();
  // random interior points first, in no particular order (an object that remembers where it was asked last must not depend on ascending queries)
  for (int k = 0; k < 6; k++) { Eigen::Index i = (Eigen::Index)r.below(N - 1); p.push_back(x(i) + (x(i + 1) - x(i)) * (double)r.range(1, 7) / 8.0); }
  if (r.coin()) for (Eigen::Index i = 0; i < N; i++) p.push_back(x(i));         // knots and both ends, ascending or descending
  else for (Eigen::Index i = N - 1; i >= 0; i--) p.push_back(x(i));
  p.push_back(x(0) - 0.25); p.push_back(x(N - 1) + 0.5);                       // outside the grid (clamped interval)
  return p;
}

static Eigen::VectorXd grid(Rng &r, int N, bool uniform) {
  Eigen::VectorXd x(N);
  double t = (double)r.range(-16, 16) / 4.0;
  for (int i = 0; i < N; i++) { x(i) = t; t += uniform ? 0.5 : (double)r.range(1, 12) / 8.0; }
  return x;
}

static Eigen::VectorXd ords(Rng &r, int N, int kind, const Eigen::VectorXd &x) {
  Eigen::VectorXd y(N);
  double a = (double)r.range(-12, 12) / 4.0, b = (double)r.range(-12, 12) / 4.0;
  for (int i = 0; i < N; i++) y(i) = kind == 0 ? a * x(i) + b : kind == 1 ? (double)r.range(-40, 40) / 8.0 : std::sin(x(i)) * a + b;
  return y;
}

template <class S>
static std::string evals(S &s, const std::vector<double> &p) {
  std::ostringstream o;
  o << " " << p.size();
  for (double r : p) o << " " << dexact(r) << " " << dexact(s.Calculate(r)) << " " << dexact(s.CalculateDerivative(r));
  return o.str();
}

// one case in three hands the spline object a data set it has seen before: an eight times finer grid on the same range, evaluated once
// near the left end — the property is about every data set an object interpolates, not only its first
template <class S> static void warm_up(S &s, Rng &r, const Eigen::VectorXd &x) {
  if (!r.coin(1, 3)) return;
  long n = 8 * x.size();
  Eigen::VectorXd wx(n), wy = Eigen::VectorXd::Zero(n);
  double a = x(0), b = x(x.size() - 1);
  for (long i = 0; i < n; i++) wx(i) = a + (b - a) * (double)i / (double)(n - 1);
  for (long i = 1; i + 1 < n; i++) wy(i) = std::sin(7.0 * (double)i / (double)n);
  s.Interpolate(wx, wy);
  volatile double sink = s.Calculate(a + (b - a) * (0.05 + 0.1 * r.unit()));
  sink = s.CalculateDerivative(a + (b - a) * 0.1);
  (void)sink;
}

// one case in three: the object has interpolated THIS grid before, under the OTHER boundary type (natural <-> periodic); the boundary rows of
// the spline system belong to the boundary type, so nothing computed for the first call may survive into the second
template <class S> static void warm_up_bc(S &s, Rng &r, const Eigen::VectorXd &x, int per) {
  if (!r.coin(1, 3)) return;
  Eigen::VectorXd wy(x.size());
  for (long i = 0; i < x.size(); i++) wy(i) = std::cos(3.0 * (double)i) + 0.25 * (double)i;
  wy(x.size() - 1) = wy(0);
  s.setBC(per ? Spline::splineNormal : Spline::splinePeriodic);
  s.Interpolate(x, wy);
  volatile double sink = s.Calculate(0.5 * (x(0) + x(1)));
  (void)sink;
  s.setBC(per ? Spline::splinePeriodic : Spline::splineNormal);
}

int main(int argc, char **argv) {
  std::string mode = argc > 1 ? argv[1] : "rand";
  long NC = argc > 2 ? atol(argv[2]) : 300;
  Rng r(env_seed() * 7919 + 12);
  (void)mode;
  for (long c = 0; c < NC; c++) {
    int k = (int)r.below(10);
    int N = 4 + (int)r.below(r.coin(1, 6) ? 60 : 9);
    bool uni = r.coin();
    Eigen::VectorXd x = grid(r, N, uni);
    int yk = (int)r.below(3);
    Eigen::VectorXd y = ords(r, N, yk, x);
    if (k < 4) {
      int per = r.coin(1, 4) ? 1 : 0;
      if (per) y(N - 1) = y(0);
      CubicSpline s;
      s.setBC(per ? Spline::splinePeriodic : Spline::splineNormal);
      warm_up(s, r, x);
      warm_up_bc(s, r, x, per);
      s.Interpolate(x, y);
      printf("C12 cubic %d %d%s%s%s%s\n", per, N, vec(x).c_str(), vec(y).c_str(), vec(s.f2_).c_str(), evals(s, eval_points(r, x)).c_str());
      // linear in the ordinates
      Eigen::VectorXd y2 = ords(r, N, 1, x);
      if (per) y2(N - 1) = y2(0);
      CubicSpline s2, s12;
      s2.setBC(per ? Spline::splinePeriodic : Spline::splineNormal); s12.setBC(per ? Spline::splinePeriodic : Spline::splineNormal);
      s2.Interpolate(x, y2);
      Eigen::VectorXd ysum = y + y2;
      s12.Interpolate(x, ysum);
      std::ostringstream o;
      std::vector<double> p = eval_points(r, x);
      o << "C12 cubicsum " << per << " " << p.size();
      for (double q : p) o << " " << dexact(s.Calculate(q)) << " " << dexact(s2.Calculate(q)) << " " << dexact(s12.Calculate(q));
      printf("%s\n", o.str().c_str());
    } else if (k < 6) {
      LinSpline s;
      warm_up(s, r, x);
      s.Interpolate(x, y);
      printf("C12 lin %d%s%s%s\n", N, vec(x).c_str(), vec(y).c_str(), evals(s, eval_points(r, x)).c_str());
    } else if (k < 8) {
      int per = r.coin(1, 4) ? 1 : 0;
      if (per) y(N - 1) = y(0);
      AkimaSpline s;
      s.setBC(per ? Spline::splinePeriodic : Spline::splineNormal);
      warm_up(s, r, x);
      warm_up_bc(s, r, x, per);
      s.Interpolate(x, y);
      printf("C12 akima %d %d%s%s%s%s\n", per, N, vec(x).c_str(), vec(y).c_str(), vec(s.t).c_str(), evals(s, eval_points(r, x)).c_str());
    } else if (k < 9) {
      Table t;
      t.resize(N);
      for (int i = 0; i < N; i++) t.set(i, x(i), y(i));
      int ns = (int)r.below(4);
      t.Smooth(ns);
      Eigen::VectorXd out(N);
      for (int i = 0; i < N; i++) out(i) = t.y(i);
      printf("C12 smooth %d %d%s%s\n", N, ns, vec(y).c_str(), vec(out).c_str());
    } else {
      // fit reproduces a function that already lies in the spline space of the fit grid
      int G = 4 + (int)r.below(6);
      Eigen::VectorXd gx = grid(r, G, uni);
      Eigen::VectorXd gy = ords(r, G, 1, gx);
      CubicSpline ref;
      ref.setBC(Spline::splineNormal);
      ref.Interpolate(gx, gy);
      int M = 3 * G + (int)r.below(20);
      Eigen::VectorXd dx(M), dy(M);
      for (int i = 0; i < M; i++) { dx(i) = gx(0) + (gx(G - 1) - gx(0)) * (double)i / (double)(M - 1); dy(i) = ref.Calculate(dx(i)); }
      CubicSpline fit;
      fit.setBC(Spline::splineNormal);
      fit.GenerateGrid(gx(0), gx(G - 1), (gx(G - 1) - gx(0)) / (double)(G - 1));
      std::string res = "ok";
      double err = 0, scale = 1;
      // the fit grid is uniform: rebuild the reference on the fit's own grid so that both live in the same spline space
      Eigen::VectorXd ux(G), uy(G);
      for (int i = 0; i < G; i++) { ux(i) = fit.getGridPoint(i); uy(i) = gy(i); }
      CubicSpline ref2;
      ref2.setBC(Spline::splineNormal);
      ref2.Interpolate(ux, uy);
      for (int i = 0; i < M; i++) dy(i) = ref2.Calculate(dx(i));
      try {
        fit.Fit(dx, dy);
        for (int i = 0; i < G; i++) { err = std::max(err, std::fabs(fit.f_(i) - uy(i))); scale = std::max(scale, std::fabs(uy(i))); }
        for (int i = 0; i < M; i++) err = std::max(err, std::fabs(fit.Calculate(dx(i)) - dy(i)));
      } catch (std::exception &e) { res = "exc"; }
      printf("C12 fitrepro %d %d %s %s %s\n", G, M, res.c_str(), dexact(err).c_str(), dexact(scale).c_str());
    }
  }
  return 0;
}
