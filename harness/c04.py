#!/usr/bin/env python3
"""C04 harness: generates complete csg_stat inputs (XML topology, mapping files, options file, multi-frame .gro trajectory
with a different box per frame, IMC targets), runs the REAL csg_stat built from the working tree on them, parses every file
it wrote and prints one protocol line per run: inputs (exact doubles as mant/exp pairs) followed by the written numbers.

Nothing of the computation is reproduced here except: the double nearest to each decimal string (python float(), the same
correctly rounded conversion as std::stod), and math.cos of the bin boundaries of angular histograms (the model needs the
cosines, it has no transcendental functions)."""
import math, os, random, shutil, subprocess, sys, tempfile, glob, re
from concurrent.futures import ThreadPoolExecutor
from decimal import Decimal

os.environ.setdefault("OMP_NUM_THREADS", "1")     # many runs in parallel: one thread each (no oversubscription, no timeouts under load)
VERIF = os.path.dirname(os.path.dirname(os.path.abspath(__file__)))


def me(x):
    """exact (mantissa, exponent) of a double"""
    if x == 0:
        return "0 0"
    if x != x or x in (float("inf"), float("-inf")):
        return "nan 0"
    m, e = math.frexp(x)
    return "%d %d" % (int(m * (1 << 53)), e - 53)


def hexs(s):
    return s.encode().hex() if s else "-"


def dec(x):
    return format(Decimal(x).normalize(), "f")


class Scenario:
    pass


def gen(rng):
    s = Scenario()
    types = ["P", "Q", "R"]
    # molecule kinds
    ncg = rng.choice([2, 3, 3, 4])
    s.m_beads = []          # per CG bead of M: (type, [atom weights])
    for b in range(ncg):
        na = rng.choice([1, 1, 2, 3])
        s.m_beads.append((rng.choice(types[:2]), [rng.choice([1, 2, 3, 0.5, 12, 16]) for _ in range(na)]))
    s.n_m = rng.choice([1, 2, 2, 3])
    s.s_type = rng.choice(types)
    s.s_weights = [rng.choice([1, 2, 16]) for _ in range(rng.choice([1, 1, 2]))]
    # one run in four takes the route WITHOUT a mapping: one atom per bead, the atom types are the interaction types and the xml
    # topology itself declares the bonds / angles / dihedrals (exclusions and bonded terms then come from every worker's own topology)
    s.direct = rng.random() < 0.25
    if s.direct:
        s.m_beads = [(t, [1]) for (t, _) in s.m_beads]
        s.s_weights = [1]
    s.n_s = rng.randint(2, 6)
    # which bonded groups the mapping defines
    s.has_angle = ncg >= 3 and rng.random() < 0.8
    s.has_dih = ncg >= 4 and rng.random() < 0.8
    # options
    s.imc = rng.random() < 0.4
    s.intra = (not s.imc) and rng.random() < 0.25
    s.block = rng.choice([0, 0, 0, 1, 2, 2, 3])
    s.nframes_total = rng.randint(1, 6)
    s.first = rng.choice([0, 0, 0, 1, 2, 3])
    s.first = min(s.first, s.nframes_total)
    s.nframes = rng.choice([-1, -1, -1, 1, 2, 3])
    s.nt = rng.choice([1, 1, 2, 3])
    # boxes: one per frame
    tric = rng.random() < 0.25
    s.boxes = []
    for f in range(s.nframes_total):
        L = [round(rng.uniform(2.4, 4.0), 3) for _ in range(3)]
        if rng.random() < 0.3:
            L = [L[0]] * 3
        if tric:
            bx = round(rng.uniform(-0.4, 0.4) * L[0], 3)
            cx = round(rng.uniform(-0.4, 0.4) * L[0], 3)
            cy = round(rng.uniform(-0.4, 0.4) * L[1], 3)
            s.boxes.append(("t", L, (bx, cx, cy)))
        else:
            s.boxes.append(("o", L, (0, 0, 0)))
    half = min(min(b[1]) for b in s.boxes) / 2 * (0.85 if tric else 1.0)
    # interaction definitions: non-bonded first (file order), then bonded
    present = sorted(set([t for (t, _) in s.m_beads] + [s.s_type]))
    s.defs = []
    nnb = rng.choice([1, 1, 2, 3])
    for k in range(nnb):
        step = Decimal(rng.choice(["0.05", "0.1", "0.125", "0.2", "0.25"]))
        mode = rng.choice(["zero", "half", "k", "k"])
        mn = Decimal(0) if mode == "zero" else step / 2 if mode == "half" else step * rng.randint(1, 3)
        nb = rng.randint(3, 9)
        mx = mn + step * (nb - 1)
        while float(mx) > half:
            nb -= 1
            mx = mn + step * (nb - 1)
        # ranges that are not a whole number of steps (one interaction in five): the histogram then has spacing (max-min)/(n-1) != step
        if nb >= 3 and not s.imc and rng.random() < 0.2 and float(mx + step * Decimal("0.7")) <= half:
            mx = mx + step * Decimal(rng.choice(["0.4", "0.25", "0.7"]))
        if nb < 2:
            mn, mx = Decimal(0), step
        t1 = rng.choice(present)
        t2 = rng.choice(present)
        d = dict(kind=0, t1=t1, t2=t2, t3="", min=mn, max=mx, step=step, cut=Decimal("0.37"), group=0)
        if rng.random() < 0.2 and not s.imc:
            d.update(kind=1, t3=rng.choice(present), min=Decimal(0), cut=Decimal(rng.choice(["0.5", "0.7", "0.9"])))
            d["step"] = Decimal(rng.choice(["0.2", "0.4", "0.1"]))
            d["max"] = Decimal(rng.choice(["3.2", "3.1"])) if d["step"] != Decimal("0.4") else Decimal("3.2")
        s.defs.append(d)
    if s.imc:
        # groups: every pair interaction in group 1, or the first alone in 1 and the rest in 2
        split = rng.random() < 0.4
        for k, d in enumerate(s.defs):
            d["group"] = (1 if (k == 0 or not split) else 2)
    s.bonded_names = {}
    if rng.random() < 0.85:
        s.bonded_names["bond"] = len(s.defs)
        st = Decimal(rng.choice(["0.1", "0.05", "0.2"]))
        bmax = Decimal("1.0") if st != Decimal("0.2") else Decimal("1.2")
        if not s.imc and rng.random() < 0.2:
            bmax += st * Decimal("0.3")          # not a whole number of steps
        s.defs.append(dict(kind=2, t1="", t2="", t3="", min=Decimal(0), max=bmax, step=st, cut=Decimal(0), group=0, ia=0))
    if s.has_angle and rng.random() < 0.85:
        s.bonded_names["angle"] = len(s.defs)
        st = Decimal(rng.choice(["0.2", "0.4", "0.1"]))
        s.defs.append(dict(kind=2, t1="", t2="", t3="", min=Decimal(0), max=Decimal("3.2"), step=st, cut=Decimal(0), group=0, ia=1))
    if s.has_dih and rng.random() < 0.85:
        s.bonded_names["dihedral"] = len(s.defs)
        st = Decimal(rng.choice(["0.2", "0.4"]))
        s.defs.append(dict(kind=2, t1="", t2="", t3="", min=Decimal("-3.2"), max=Decimal("3.2"), step=st, cut=Decimal(0), group=0, ia=2))
    if not s.defs:
        s.defs.append(dict(kind=0, t1=present[0], t2=present[0], t3="", min=Decimal(0), max=Decimal("0.5"), step=Decimal("0.1"), cut=Decimal("0.37"), group=1 if s.imc else 0))
    # atoms: per frame, per molecule a centre, per CG bead a chain offset, per atom a small spread
    s.frames = []
    for f in range(s.nframes_total):
        kind, L, off = s.boxes[f]
        atoms = []
        for m in range(s.n_m):
            c = [rng.uniform(0, L[i]) for i in range(3)]
            p = c
            for (t, ws) in s.m_beads:
                p = [p[i] + rng.uniform(-0.35, 0.35) for i in range(3)]
                for _ in ws:
                    atoms.append([round(p[i] + rng.uniform(-0.12, 0.12), 3) for i in range(3)])
        for m in range(s.n_s):
            c = [rng.uniform(0, L[i]) for i in range(3)]
            if rng.random() < 0.3 and atoms:
                # near another atom, so that small distances and the first bins are populated
                q = rng.choice(atoms)
                c = [q[i] + rng.uniform(-0.3, 0.3) for i in range(3)]
            for _ in s.s_weights:
                atoms.append([round(c[i] + rng.uniform(-0.1, 0.1), 3) for i in range(3)])
        s.frames.append(atoms)
    # IMC targets
    for d in s.defs:
        nb = int((float(d["max"]) - float(d["min"])) / float(d["step"]) + 1.000000001)
        d["n"] = nb
        d["tgt"] = [round(rng.uniform(0, 2), 4) for _ in range(nb)] if (s.imc and d["group"]) else []
    return s


def write_inputs(s, d):
    natm = sum(len(ws) for (_, ws) in s.m_beads)
    with open(os.path.join(d, "topol.xml"), "w") as f:
        f.write("<topology>\n <molecules>\n")
        f.write('  <molecule name="M" nmols="%d" nbeads="%d">\n' % (s.n_m, natm))
        k = 0
        direct = getattr(s, "direct", False)
        for (t, ws) in s.m_beads:
            for w in ws:
                k += 1
                f.write('   <bead name="a%d" type="%s" mass="%s" q="0"/>\n' % (k, t if direct else "a", "1.0"))
        f.write("  </molecule>\n")
        f.write('  <molecule name="S" nmols="%d" nbeads="%d">\n' % (s.n_s, len(s.s_weights)))
        for k in range(len(s.s_weights)):
            f.write('   <bead name="s%d" type="%s" mass="1.0" q="0"/>\n' % (k + 1, s.s_type if direct else "s"))
        f.write("  </molecule>\n </molecules>\n")
        if direct:
            n = len(s.m_beads)
            f.write(" <bonded>\n")
            if n >= 2:
                f.write("  <bond><name>bond</name><beads>\n%s</beads></bond>\n" % "".join("    M:a%d M:a%d\n" % (i + 1, i + 2) for i in range(n - 1)))
            if s.has_angle:
                f.write("  <angle><name>angle</name><beads>\n%s</beads></angle>\n" % "".join("    M:a%d M:a%d M:a%d\n" % (i + 1, i + 2, i + 3) for i in range(n - 2)))
            if s.has_dih:
                f.write("  <dihedral><name>dihedral</name><beads>\n%s</beads></dihedral>\n" % "".join("    M:a%d M:a%d M:a%d M:a%d\n" % (i + 1, i + 2, i + 3, i + 4) for i in range(n - 3)))
            f.write(" </bonded>\n")
        f.write("</topology>\n")
    with open(os.path.join(d, "m.xml"), "w") as f:
        f.write("<cg_molecule>\n <name>M</name>\n <ident>M</ident>\n <topology>\n  <cg_beads>\n")
        k = 0
        for b, (t, ws) in enumerate(s.m_beads):
            names = []
            for w in ws:
                k += 1
                names.append("1:M:a%d" % k)
            f.write("   <cg_bead><name>C%d</name><type>%s</type><mapping>W%d</mapping><beads>%s</beads></cg_bead>\n" % (b + 1, t, b + 1, " ".join(names)))
        f.write("  </cg_beads>\n  <cg_bonded>\n")
        n = len(s.m_beads)
        f.write("   <bond><name>bond</name><beads>\n%s</beads></bond>\n" % "".join("    C%d C%d\n" % (i + 1, i + 2) for i in range(n - 1)))
        if s.has_angle:
            f.write("   <angle><name>angle</name><beads>\n%s</beads></angle>\n" % "".join("    C%d C%d C%d\n" % (i + 1, i + 2, i + 3) for i in range(n - 2)))
        if s.has_dih:
            f.write("   <dihedral><name>dihedral</name><beads>\n%s</beads></dihedral>\n" % "".join("    C%d C%d C%d C%d\n" % (i + 1, i + 2, i + 3, i + 4) for i in range(n - 3)))
        f.write("  </cg_bonded>\n </topology>\n <maps>\n")
        for b, (t, ws) in enumerate(s.m_beads):
            f.write("  <map><name>W%d</name><weights>%s</weights></map>\n" % (b + 1, " ".join(dec(str(w)) for w in ws)))
        f.write(" </maps>\n</cg_molecule>\n")
    with open(os.path.join(d, "s.xml"), "w") as f:
        f.write("<cg_molecule>\n <name>S</name>\n <ident>S</ident>\n <topology>\n  <cg_beads>\n")
        f.write("   <cg_bead><name>C1</name><type>%s</type><mapping>W</mapping><beads>%s</beads></cg_bead>\n" % (s.s_type, " ".join("1:S:s%d" % (k + 1) for k in range(len(s.s_weights)))))
        f.write("  </cg_beads>\n </topology>\n <maps>\n  <map><name>W</name><weights>%s</weights></map>\n </maps>\n</cg_molecule>\n" % " ".join(dec(str(w)) for w in s.s_weights))
    inv = {v: k for k, v in s.bonded_names.items()}
    with open(os.path.join(d, "opt.xml"), "w") as f:
        f.write("<cg>\n")
        for k, dd in enumerate(s.defs):
            grp = ("G%d" % dd["group"]) if dd["group"] else "none"
            imc = "<inverse><imc><group>%s</group></imc></inverse>" % grp if s.imc else ""
            if dd["kind"] == 2:
                f.write(" <bonded><name>%s</name><min>%s</min><max>%s</max><step>%s</step>%s</bonded>\n" % (inv[k], dec(dd["min"]), dec(dd["max"]), dec(dd["step"]), imc))
            else:
                if s.intra:
                    imc += "<max_intra>%s</max_intra>" % dec(dd["max"])
                three = "<threebody>1</threebody><type3>%s</type3><cut>%s</cut>" % (dd["t3"], dec(dd["cut"])) if dd["kind"] == 1 else ""
                f.write(" <non-bonded><name>I%d</name><type1>%s</type1><type2>%s</type2>%s<min>%s</min><max>%s</max><step>%s</step>%s</non-bonded>\n"
                        % (k, dd["t1"], dd["t2"], three, dec(dd["min"]), dec(dd["max"]), dec(dd["step"]), imc))
        f.write("</cg>\n")
    with open(os.path.join(d, "traj.gro"), "w") as f:
        for fr, atoms in enumerate(s.frames):
            f.write("frame t= %d.0\n%5d\n" % (fr, len(atoms)))
            k = 0
            res = 0
            for m in range(s.n_m):
                res += 1
                for a in range(natm):
                    x = atoms[k]
                    k += 1
                    f.write("%5d%-5s%5s%5d%8.3f%8.3f%8.3f\n" % (res, "M", "a%d" % (a + 1), k, x[0], x[1], x[2]))
            for m in range(s.n_s):
                res += 1
                for a in range(len(s.s_weights)):
                    x = atoms[k]
                    k += 1
                    f.write("%5d%-5s%5s%5d%8.3f%8.3f%8.3f\n" % (res, "S", "s%d" % (a + 1), k, x[0], x[1], x[2]))
            kind, L, off = s.boxes[fr]
            if kind == "o":
                f.write("%10.5f%10.5f%10.5f\n" % tuple(L))
            else:
                f.write("%10.5f%10.5f%10.5f%10.5f%10.5f%10.5f%10.5f%10.5f%10.5f\n" % (L[0], L[1], L[2], 0, 0, off[0], 0, off[1], off[2]))
    for k, dd in enumerate(s.defs):
        if dd["tgt"]:
            with open(os.path.join(d, "I%d.dist.tgt" % k), "w") as f:
                for i, t in enumerate(dd["tgt"]):
                    f.write("%s %s i\n" % (dec(dd["min"] + dd["step"] * i), dec(str(t))))


def protocol_inputs(s):
    """the input part of the protocol line, read back from the decimal strings that were written to the files"""
    out = ["C04 run %s %d %d %d %d %d %d" % (s.sid, s.block, int(s.imc), int(s.intra), s.first, s.nframes, s.nt)]
    cg = []
    natm = sum(len(ws) for (_, ws) in s.m_beads)
    mol = 0
    for m in range(s.n_m):
        k = m * natm
        for (t, ws) in s.m_beads:
            cg.append((t, mol, [(k + i, float(dec(str(w)))) for i, w in enumerate(ws)]))
            k += len(ws)
        mol += 1
    base = s.n_m * natm
    for m in range(s.n_s):
        cg.append((s.s_type, mol, [(base + m * len(s.s_weights) + i, float(dec(str(w)))) for i, w in enumerate(s.s_weights)]))
        mol += 1
    out.append("CG %d" % len(cg))
    for (t, m, aw) in cg:
        out.append("%s %d %d %s" % (hexs(t), m, len(aw), " ".join("%d %s" % (a, me(w)) for a, w in aw)))
    ias = []
    n = len(s.m_beads)
    for m in range(s.n_m):
        b0 = m * n
        for i in range(n - 1):
            ias.append((s.bonded_names.get("bond", 999), 0, [b0 + i, b0 + i + 1]))
        if s.has_angle:
            for i in range(n - 2):
                ias.append((s.bonded_names.get("angle", 999), 1, [b0 + i, b0 + i + 1, b0 + i + 2]))
        if s.has_dih:
            for i in range(n - 3):
                ias.append((s.bonded_names.get("dihedral", 999), 2, [b0 + i, b0 + i + 1, b0 + i + 2, b0 + i + 3]))
    out.append("IA %d" % len(ias))
    for (di, kind, bs) in ias:
        out.append("%d %d %d %s" % (di, kind, len(bs), " ".join(map(str, bs))))
    out.append("DEF %d" % len(s.defs))
    for dd in s.defs:
        mn, mx, st = float(dec(dd["min"])), float(dec(dd["max"])), float(dec(dd["step"]))
        nb = dd["n"]
        angular = dd["kind"] == 1 or (dd["kind"] == 2 and dd.get("ia", 0) >= 1)
        cosb = []
        if angular:
            h = (mx - mn) / (nb - 1) if nb > 1 else 1.0
            cosb = [math.cos(mn + (k - 0.5) * h) for k in range(nb + 1)]
        out.append("%d %s %s %s %s %s %s %s %d %d %s %d %s" % (
            dd["kind"], hexs(dd["t1"]), hexs(dd["t2"]), hexs(dd["t3"]), me(mn), me(mx), me(st), me(float(dec(dd["cut"]))), dd["group"],
            len(cosb), " ".join(me(c) for c in cosb), len(dd["tgt"]), " ".join(me(float(dec(str(t)))) for t in dd["tgt"])))
    out.append("FR %d" % len(s.frames))
    for fr, atoms in enumerate(s.frames):
        kind, L, off = s.boxes[fr]
        f5 = lambda v: float("%10.5f" % v)
        a = (f5(L[0]), 0.0, 0.0)
        b = (f5(off[0]), f5(L[1]), 0.0)
        c = (f5(off[1]), f5(off[2]), f5(L[2]))
        out.append(" ".join(me(v) for v in a + b + c))
        out.append("%d %s" % (len(atoms), " ".join(me(float("%8.3f" % v)) for x in atoms for v in x)))
    return " ".join(out)


def read_table(path):
    xs, ys = [], []
    for line in open(path):
        t = line.split()
        if not t or t[0].startswith("#"):
            continue
        xs.append(float(t[0]))
        ys.append(float(t[1]))
    return xs, ys


def run_one(exe, s, keep=None):
    d = tempfile.mkdtemp(prefix="c04_", dir=os.environ.get("VERIF_TMP", os.path.join(VERIF, ".cache", "tmp")))
    try:
        write_inputs(s, d)
        cmd = [exe, "--top", "topol.xml", "--trj", "traj.gro", "--cg", "m.xml;s.xml", "--options", "opt.xml", "--nt", str(s.nt)]
        if getattr(s, "direct", False):
            cmd = [exe, "--top", "topol.xml", "--trj", "traj.gro", "--options", "opt.xml", "--nt", str(s.nt)]
        if s.imc:
            cmd.append("--do-imc")
        if s.intra:
            cmd.append("--include-intra")
        if s.block:
            cmd += ["--block-length", str(s.block)]
        if s.first:
            cmd += ["--first-frame", str(s.first)]
        if s.nframes >= 0:
            cmd += ["--nframes", str(s.nframes)]
        try:
            r = subprocess.run(cmd, cwd=d, stdout=subprocess.PIPE, stderr=subprocess.PIPE, timeout=900)
            status = "ok" if r.returncode == 0 else hexs((r.stdout.decode(errors="replace")[-200:] + r.stderr.decode(errors="replace")[-200:]).strip()[-160:])
        except subprocess.TimeoutExpired:
            status = hexs("timeout")
        outs = []
        inv = {k: v for k, v in s.bonded_names.items()}
        for p in sorted(glob.glob(os.path.join(d, "*"))):
            fn = os.path.basename(p)
            if fn in ("topol.xml", "m.xml", "s.xml", "opt.xml", "traj.gro") or fn.endswith(".dist.tgt"):
                continue
            m = re.fullmatch(r"(I\d+|bond|angle|dihedral)(?:_(\d+))?\.dist\.new", fn)
            if m:
                name = m.group(1)
                idx = int(name[1:]) if name[0] == "I" else inv[name]
                xs, ys = read_table(p)
                outs.append("dist %d %d %d %s" % (idx, int(m.group(2) or 0), 2 * len(xs), " ".join(me(v) for v in xs + ys)))
                continue
            m = re.fullmatch(r"G(\d+)(?:_(\d+)\.dist\.new)?\.(imc|gmc|idx)", fn)
            if m:
                g, b, kind = int(m.group(1)), int(m.group(2) or 0), m.group(3)
                if kind == "imc":
                    xs, ys = read_table(p)
                    outs.append("imc %d %d %d %s" % (g, b, 2 * len(xs), " ".join(me(v) for v in xs + ys)))
                elif kind == "gmc":
                    vals = [float(t) for line in open(p) for t in line.split()]
                    outs.append("gmc %d %d %d %s" % (g, b, len(vals), " ".join(me(v) for v in vals)))
                else:
                    vals = []
                    for line in open(p):
                        t = line.split()
                        if not t:
                            continue
                        nums = re.findall(r"\d+", t[1])
                        vals += [float(t[0][1:]), float(nums[0]), float(nums[-1])]
                    outs.append("idx %d %d %d %s" % (g, b, len(vals), " ".join(me(v) for v in vals)))
                continue
            if re.fullmatch(r"G\d+_\d+\.dist\.new\.(S|cor)", fn):
                continue     # raw block dumps (not part of the property)
            outs.append("unknown 0 0 0")
        line = protocol_inputs(s) + " OUT %s %d %s" % (status, len(outs), " ".join(outs))
        if keep:
            shutil.copytree(d, keep, dirs_exist_ok=True)
        return line
    finally:
        shutil.rmtree(d, ignore_errors=True)


def mk(seed, i):
    s = gen(random.Random(seed * 1000003 + i))
    s.sid = "%d:%d" % (seed, i)
    return s


def main():
    exe = sys.argv[1]
    mode = sys.argv[2]
    n = int(sys.argv[3]) if len(sys.argv) > 3 else 50
    seed = int(os.environ.get("VERIF_SEED", "1"))
    os.makedirs(os.environ.get("VERIF_TMP", os.path.join(VERIF, ".cache", "tmp")), exist_ok=True)
    if mode == "rand":
        scen = [mk(seed, i) for i in range(n)]
    elif mode == "ids":
        # replay: scenario ids "seed:i" on stdin
        scen = []
        for line in sys.stdin:
            for t in line.split():
                if re.fullmatch(r"\d+:\d+", t):
                    a, b = t.split(":")
                    scen.append(mk(int(a), int(b)))
    else:
        sys.exit("usage: c04.py <csg_stat> rand|ids [n]")
    with ThreadPoolExecutor(int(os.environ.get("VERIF_JOBS", "12"))) as ex:
        for line in ex.map(lambda s: run_one(exe, s), scen):
            sys.stdout.write(line + "\n")


if __name__ == "__main__":
    main()
