#!/usr/bin/env python3
"""C12 harness (csg_resample executable): generated tables (uniform and non-uniform abscissae, flags i/o/u), output grids equal
to the input grid, finer, coarser and offset, spline types linear / cubic / akima, natural and (akima) periodic boundaries,
with the derivative table.  One protocol line per run: the input table as the doubles of the decimal strings written, the
grid, and both written tables."""
import math, os, random, re, shutil, subprocess, sys, tempfile
from concurrent.futures import ThreadPoolExecutor

VERIF = os.path.dirname(os.path.dirname(os.path.abspath(__file__)))


def me(x):
    if x == 0:
        return "0 0"
    if x != x or x in (float("inf"), float("-inf")):
        return "nan 0"
    m, e = math.frexp(x)
    return "%d %d" % (int(m * (1 << 53)), e - 53)


def gen(rng):
    n = rng.choice([4, 5, 6, 8, 12, 20])
    h = rng.choice([0.1, 0.125, 0.25, 0.05])
    x0 = rng.choice([0.0, 0.2, 1.0])
    uniform = rng.random() < 0.6
    xs = [round(x0 + i * h, 6) for i in range(n)] if uniform else None
    if xs is None:
        xs, x = [], x0
        for i in range(n):
            xs.append(round(x, 6))
            x += h * rng.choice([0.5, 1, 1, 2])
    shape = rng.choice(["rand", "line", "sine"])
    ys = [round(rng.uniform(-3, 3), 4) if shape == "rand" else round(1.5 * x - 0.75, 6) if shape == "line" else round(math.sin(2 * x), 6) for x in xs]
    flags = [rng.choice("iiiou") for _ in range(n)]
    kind = rng.choice(["linear", "cubic", "akima"])
    periodic = kind == "akima" and rng.random() < 0.3
    mode = rng.choice(["same", "same", "finer", "coarser", "offset", "beyond"])
    if mode == "same" and uniform:
        mn, mx, st = xs[0], xs[-1], h
    elif mode == "finer":
        mn, mx, st = xs[0], xs[-1], h / 4
    elif mode == "coarser":
        mn, mx, st = xs[0], xs[-1], h * 2
    elif mode == "beyond":
        mn, mx, st = round(xs[0] - 2 * h, 6), round(xs[-1] + 2 * h, 6), h
    else:
        mn, mx, st = round(xs[0] + h / 3, 6), round(xs[-1] - h / 3, 6), h / 2
    # one input in four carries an error column (x y yerr flag: the layout csg_fmatch writes); the flag is the LAST column
    errcol = rng.random() < 0.25
    return dict(xs=xs, ys=ys, flags=flags, kind=kind, periodic=periodic, mn=mn, mx=mx, st=st, errcol=errcol)


def read_table(p):
    rows = []
    for l in open(p):
        if l.startswith("#") or not l.strip():
            continue
        t = l.split()
        rows.append((float(t[0]), float(t[1]), t[-1]))
    return rows


def run_one(exe, s):
    d = tempfile.mkdtemp(prefix="c12r_", dir=os.environ.get("VERIF_TMP", os.path.join(VERIF, ".cache", "tmp")))
    try:
        with open(os.path.join(d, "in"), "w") as f:
            for x, y, fl in zip(s["xs"], s["ys"], s["flags"]):
                if s.get("errcol"):
                    f.write("%r %r %r %s\n" % (x, y, 0.125, fl))
                else:
                    f.write("%r %r %s\n" % (x, y, fl))
        cmd = [exe, "--in", "in", "--out", "out", "--derivative", "der", "--grid", "%r:%r:%r" % (s["mn"], s["st"], s["mx"]), "--type", s["kind"]]
        if s["periodic"]:
            cmd += ["--boundaries", "periodic"]
        r = subprocess.run(cmd, cwd=d, stdout=subprocess.PIPE, stderr=subprocess.PIPE, timeout=60)
        ok = r.returncode == 0 and os.path.exists(os.path.join(d, "out")) and os.path.exists(os.path.join(d, "der"))
        line = "C12 resample %s %s %d %d %s %s %s %s" % (s["sid"], s["kind"], 1 if s["periodic"] else 0, len(s["xs"]),
                                                     " ".join("%s %s %s" % (me(x), me(y), fl) for x, y, fl in zip(s["xs"], s["ys"], s["flags"])),
                                                     me(s["mn"]), me(s["mx"]), me(s["st"]))
        if not ok:
            return line + " | err 0 0"
        out, der = read_table(os.path.join(d, "out")), read_table(os.path.join(d, "der"))
        return line + " | ok %d %s %d %s" % (len(out), " ".join("%s %s %s" % (me(x), me(y), fl) for x, y, fl in out),
                                           len(der), " ".join("%s %s %s" % (me(x), me(y), fl) for x, y, fl in der))
    finally:
        shutil.rmtree(d, ignore_errors=True)


def mk(seed, i):
    s = gen(random.Random(seed * 1000003 + i))
    s["sid"] = "%d:%d" % (seed, i)
    return s


def main():
    exe, mode = sys.argv[1], sys.argv[2]
    n = int(sys.argv[3]) if len(sys.argv) > 3 else 50
    seed = int(os.environ.get("VERIF_SEED", "1"))
    os.makedirs(os.environ.get("VERIF_TMP", os.path.join(VERIF, ".cache", "tmp")), exist_ok=True)
    if mode == "rand":
        scen = [mk(seed, i) for i in range(n)]
    else:
        scen = []
        for line in sys.stdin:
            for t in re.findall(r"C12 resample (\d+:\d+)", line):
                a, b = t.split(":")
                scen.append(mk(int(a), int(b)))
    with ThreadPoolExecutor(int(os.environ.get("VERIF_JOBS", "12"))) as ex:
        for line in ex.map(lambda s: run_one(exe, s), scen):
            sys.stdout.write(line + "\n")


if __name__ == "__main__":
    main()
