#!/usr/bin/env python3
"""C12 harness (csg_resample executable): generated tables (uniform and non-uniform abscissae, flags i/o/u), output grids equal
to the input grid, finer, coarser and offset, spline types linear / cubic / akima, natural and (akima) periodic boundaries,
with the derivative table.  One protocol line per run: the input table as the doubles of the decimal strings written, the
grid, and both written tables."""
import math, os, random, re, shutil, subprocess, sys, tempfile
from concurrent.futures import ThreadPoolExecutor

os.environ.setdefault("OMP_NUM_THREADS", "1")     # many runs in parallel: one thread each (no oversubscription, no timeouts under load)
VERIF = os.path.dirname(os.path.dirname(os.path.abspath(__file__)))


def me(x):
    if x == 0:
        return "0 0"
    if x != x or x in (float("inf"), float("-inf")):
        return "nan 0"
    m, e = math.frexp(x)
    return "%d %d" % (int(m * (1 << 53)), e - 53)


def gen(rng):
    n = rng.choice([4, 5, 6, 8, 12, 20])
    h = rng.choice([0.1, 0.125, 0.25, 0.05])
    # abscissae left of zero and across it as well (dihedral / angle tables): the flag copy of csg_resample compares abscissae
    x0 = rng.choice([0.0, 0.2, 1.0, -1.5, -2.0, -0.6, -3.14])
    uniform = rng.random() < 0.6
    xs = [round(x0 + i * h, 6) for i in range(n)] if uniform else None
    if xs is None:
        xs, x = [], x0
        for i in range(n):
            xs.append(round(x, 6))
            x += h * rng.choice([0.5, 1, 1, 2])
    shape = rng.choice(["rand", "line", "sine"])
    ys = [round(rng.uniform(-3, 3), 4) if shape == "rand" else round(1.5 * x - 0.75, 6) if shape == "line" else round(math.sin(2 * x), 6) for x in xs]
    flags = [rng.choice("iiiou") for _ in range(n)]
    kind = rng.choice(["linear", "cubic", "akima"])
    periodic = kind == "akima" and rng.random() < 0.3
    mode = rng.choice(["same", "same", "finer", "coarser", "offset", "beyond"])
    if mode == "same" and uniform:
        mn, mx, st = xs[0], xs[-1], h
    elif mode == "finer":
        mn, mx, st = xs[0], xs[-1], h / 4
    elif mode == "coarser":
        mn, mx, st = xs[0], xs[-1], h * 2
    elif mode == "beyond":
        mn, mx, st = round(xs[0] - 2 * h, 6), round(xs[-1] + 2 * h, 6), h
    else:
        mn, mx, st = round(xs[0] + h / 3, 6), round(xs[-1] - h / 3, 6), h / 2
    # one input in four carries an error column (x y yerr flag: the layout csg_fmatch writes); the flag is the LAST column
    errcol = rng.random() < 0.25
    return dict(xs=xs, ys=ys, flags=flags, kind=kind, periodic=periodic, mn=mn, mx=mx, st=st, errcol=errcol)


def read_table(p):
    rows = []
    for l in open(p):
        if l.startswith("#") or not l.strip():
            continue
        t = l.split()
        rows.append((float(t[0]), float(t[1]), t[-1]))
    return rows


def run_one(exe, s):
    d = tempfile.mkdtemp(prefix="c12r_", dir=os.environ.get("VERIF_TMP", os.path.join(VERIF, ".cache", "tmp")))
    try:
        with open(os.path.join(d, "in"), "w") as f:
            for x, y, fl in zip(s["xs"], s["ys"], s["flags"]):
                if s.get("errcol"):
                    f.write("%r %r %r %s\n" % (x, y, 0.125, fl))
                else:
                    f.write("%r %r %s\n" % (x, y, fl))
        cmd = [exe, "--in", "in", "--out", "out", "--derivative", "der", "--grid", "%r:%r:%r" % (s["mn"], s["st"], s["mx"]), "--type", s["kind"]]
        if s["periodic"]:
            cmd += ["--boundaries", "periodic"]
        r = subprocess.run(cmd, cwd=d, stdout=subprocess.PIPE, stderr=subprocess.PIPE, timeout=600)
        ok = r.returncode == 0 and os.path.exists(os.path.join(d, "out")) and os.path.exists(os.path.join(d, "der"))
        line = "C12 resample %s %s %d %d %s %s %s %s" % (s["sid"], s["kind"], 1 if s["periodic"] else 0, len(s["xs"]),
                                                     " ".join("%s %s %s" % (me(x), me(y), fl) for x, y, fl in zip(s["xs"], s["ys"], s["flags"])),
                                                     me(s["mn"]), me(s["mx"]), me(s["st"]))
        if not ok:
            return line + " | err 0 0"
        out, der = read_table(os.path.join(d, "out")), read_table(os.path.join(d, "der"))
        return line + " | ok %d %s %d %s" % (len(out), " ".join("%s %s %s" % (me(x), me(y), fl) for x, y, fl in out),
                                           len(der), " ".join("%s %s %s" % (me(x), me(y), fl) for x, y, fl in der))
    finally:
        shutil.rmtree(d, ignore_errors=True)


def natural_f2(xs, fs):
    n = len(xs)
    if n < 3:
        return [0.0] * n
    a, b, c, d = [0.0] * n, [1.0] * n, [0.0] * n, [0.0] * n
    for i in range(1, n - 1):
        h0, h1 = xs[i] - xs[i - 1], xs[i + 1] - xs[i]
        a[i], b[i], c[i] = h0 / 6, (h0 + h1) / 3, h1 / 6
        d[i] = (fs[i + 1] - fs[i]) / h1 - (fs[i] - fs[i - 1]) / h0
    for i in range(1, n):
        w = a[i] / b[i - 1]
        b[i] -= w * c[i - 1]
        d[i] -= w * d[i - 1]
    x = [0.0] * n
    x[-1] = d[-1] / b[-1]
    for i in range(n - 2, -1, -1):
        x[i] = (d[i] - c[i] * x[i + 1]) / b[i]
    return x


def clamped_f2(xs, fs):
    """second derivatives of the cubic spline with zero slope at both ends (dense solve: the systems are tiny)"""
    n = len(xs)
    A = [[0.0] * n for _ in range(n)]
    d = [0.0] * n
    h = xs[1] - xs[0]
    A[0][0], A[0][1], d[0] = h / 3, h / 6, (fs[1] - fs[0]) / h
    h = xs[-1] - xs[-2]
    A[-1][-2], A[-1][-1], d[-1] = h / 6, h / 3, -(fs[-1] - fs[-2]) / h
    for i in range(1, n - 1):
        h0, h1 = xs[i] - xs[i - 1], xs[i + 1] - xs[i]
        A[i][i - 1], A[i][i], A[i][i + 1] = h0 / 6, (h0 + h1) / 3, h1 / 6
        d[i] = (fs[i + 1] - fs[i]) / h1 - (fs[i] - fs[i - 1]) / h0
    for c in range(n):
        p = max(range(c, n), key=lambda r: abs(A[r][c]))
        A[c], A[p], d[c], d[p] = A[p], A[c], d[p], d[c]
        for r in range(c + 1, n):
            w = A[r][c] / A[c][c]
            for k in range(c, n):
                A[r][k] -= w * A[c][k]
            d[r] -= w * d[c]
    x = [0.0] * n
    for i in range(n - 1, -1, -1):
        x[i] = (d[i] - sum(A[i][k] * x[k] for k in range(i + 1, n))) / A[i][i]
    return x


def spline_eval(xs, fs, f2, r):
    i = 0
    while i < len(xs) - 2 and r >= xs[i + 1]:
        i += 1
    h = xs[i + 1] - xs[i]
    A = (xs[i + 1] - r) / h
    B = 1 - A
    return A * fs[i] + B * fs[i + 1] + (A ** 3 - A) * h * h / 6 * f2[i] + (B ** 3 - B) * h * h / 6 * f2[i + 1]


def gen_fit(rng):
    """data sampled from a natural cubic spline on the fit grid: the fit has to reproduce it (it lies in the spline space)"""
    nk = rng.choice([4, 5, 6, 8])
    fst = rng.choice([0.25, 0.5, 0.2])
    fmn = rng.choice([0.0, 0.5, 1.0])
    n = int(((fmn + (nk - 1) * fst) - fmn) / fst + 1.00000001)
    fmx = round(fmn + (nk - 1) * fst, 6)
    kx = [fmn + i * fst for i in range(n - 1)] + [fmx]          # Spline::GenerateGrid
    ky = [round(rng.uniform(-3, 3), 3) for _ in kx]
    # boundary conditions of the fit: natural, or zero slope at both ends (--boundaries derivativezero); the data are sampled from a
    # spline of the corresponding space
    bc = rng.choice(["nat", "nat", "dz"])
    f2 = natural_f2(kx, ky) if bc == "nat" else clamped_f2(kx, ky)
    m = rng.choice([2, 3, 4, 7]) * (len(kx) - 1) + 1
    xs = [round(fmn + (fmx - fmn) * i / (m - 1), 9) for i in range(m)]
    xs[-1] = fmx
    ys = [spline_eval(kx, ky, f2, x) for x in xs]
    cut = rng.random() < 0.4
    pre, post = [], []
    if cut:
        # points outside the fit grid carry values far off the curve: they are cut off before the fit
        pre = [(round(fmn - 0.3 + 0.1 * i, 6), 50.0 + i) for i in range(3)]
        post = [(round(fmx + 0.1 * (i + 1), 6), -40.0 - i) for i in range(3)]
    ost = rng.choice([fst, fst / 2, fst / 5])
    return dict(fit=True, bc=bc, kx=kx, ky=ky, fmn=fmn, fmx=fmx, fst=fst, data=pre + list(zip(xs, ys)) + post, omn=fmn, omx=fmx, ost=ost)


def run_fit(exe, s):
    d = tempfile.mkdtemp(prefix="c12f_", dir=os.environ.get("VERIF_TMP", os.path.join(VERIF, ".cache", "tmp")))
    try:
        with open(os.path.join(d, "in"), "w") as f:
            for x, y in s["data"]:
                f.write("%r %r i\n" % (x, y))
        cmd = [exe, "--in", "in", "--out", "out", "--grid", "%r:%r:%r" % (s["omn"], s["ost"], s["omx"]),
               "--fitgrid", "%r:%r:%r" % (s["fmn"], s["fst"], s["fmx"]), "--type", "cubic"]
        if s.get("bc", "nat") == "dz":
            cmd += ["--boundaries", "derivativezero"]
        r = subprocess.run(cmd, cwd=d, stdout=subprocess.PIPE, stderr=subprocess.PIPE, timeout=600)
        ok = r.returncode == 0 and os.path.exists(os.path.join(d, "out"))
        line = "C12 resfit %s %d %s %s %s %s %s %s %s %s" % (s["sid"], len(s["kx"]), " ".join("%s %s" % (me(x), me(y)) for x, y in zip(s["kx"], s["ky"])),
                                                          me(s["fmn"]), me(s["fmx"]), me(s["fst"]), me(s["omn"]), me(s["omx"]), me(s["ost"]), s.get("bc", "nat"))
        if not ok:
            return line + " | err 0"
        out = read_table(os.path.join(d, "out"))
        return line + " | ok %d %s" % (len(out), " ".join("%s %s %s" % (me(x), me(y), fl) for x, y, fl in out))
    finally:
        shutil.rmtree(d, ignore_errors=True)


def mk(seed, i):
    rng = random.Random(seed * 1000003 + i)
    s = gen_fit(rng) if rng.random() < 0.2 else gen(rng)
    s["sid"] = "%d:%d" % (seed, i)
    return s


def main():
    exe, mode = sys.argv[1], sys.argv[2]
    n = int(sys.argv[3]) if len(sys.argv) > 3 else 50
    seed = int(os.environ.get("VERIF_SEED", "1"))
    os.makedirs(os.environ.get("VERIF_TMP", os.path.join(VERIF, ".cache", "tmp")), exist_ok=True)
    if mode == "rand":
        scen = [mk(seed, i) for i in range(n)]
    else:
        scen = []
        for line in sys.stdin:
            for t in re.findall(r"C12 res(?:ample|fit) (\d+:\d+)", line):
                a, b = t.split(":")
                scen.append(mk(int(a), int(b)))
    with ThreadPoolExecutor(int(os.environ.get("VERIF_JOBS", "12"))) as ex:
        for line in ex.map(lambda s: run_fit(exe, s) if s.get("fit") else run_one(exe, s), scen):
            sys.stdout.write(line + "\n")


if __name__ == "__main__":
    main()
