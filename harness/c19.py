#!/usr/bin/env python3
"""C19 harness: runs the REAL Perl table scripts of csg/share/scripts/inverse (perl, PERL5LIB set to that directory) on generated
table files and prints one protocol line per run: inputs as the exact doubles of the decimal strings written, the script's
output table, and — where the script takes logarithms — the logarithms of the inputs computed here (math.log) as witnesses
for the model, which has no transcendental functions."""
import math, os, random, re, shutil, subprocess, sys, tempfile
from concurrent.futures import ThreadPoolExecutor

os.environ.setdefault("OMP_NUM_THREADS", "1")     # many runs in parallel: one thread each (no oversubscription, no timeouts under load)
VERIF = os.path.dirname(os.path.dirname(os.path.abspath(__file__)))
REPO = os.environ.get("VOTCA_REPO", "/repo")
SCR = REPO + "/csg/share/scripts/inverse"


def me(x):
    if x == 0:
        return "0 0"
    if x != x or x in (float("inf"), float("-inf")):
        return "nan 0"
    m, e = math.frexp(x)
    return "%d %d" % (int(m * (1 << 53)), e - 53)


def num(rng, kind):
    if kind == "rdf":
        return rng.choice([0.0, 0.0, 1e-11, 5e-10]) if rng.random() < 0.25 else round(rng.uniform(0.001, 3.0), 4)
    if kind == "pot":
        return round(rng.uniform(-20, 20), 4)
    return round(rng.uniform(-5, 5), 3)


def grid(rng, n):
    x0 = rng.choice([0.0, 0.1, 0.25, 1.0])
    h = rng.choice([0.01, 0.05, 0.125, 0.2])
    return [round(x0 + i * h, 6) for i in range(n)]


INT_LITERALS = False     # set per scenario: whole numbers are written without a decimal point ("0", "-2": Perl treats the string "0" as false)


def lit(v):
    if INT_LITERALS and v == int(v) and abs(v) < 1e15:
        return str(int(v))
    return repr(v)


def write_table(path, xs, ys, flags, errs=None):
    with open(path, "w") as f:
        f.write("# generated\n")
        for i in range(len(xs)):
            if errs is None:
                f.write("%r %s %s\n" % (xs[i], lit(ys[i]), flags[i]))
            else:
                f.write("%r %s %s %s\n" % (xs[i], lit(ys[i]), lit(errs[i]), flags[i]))


def read_table(path):
    rows = []
    for line in open(path):
        if line.startswith("#") or line.startswith("@") or not line.strip():
            continue
        t = line.split()
        rows.append(t)
    return rows


def fnum(s):
    try:
        return float(s)
    except ValueError:
        return float("nan")


def out_rows(rows):
    """x y flag per row; 'nan' values become the token nanv (a separate flag for the driver)"""
    o = [str(len(rows))]
    for t in rows:
        y = fnum(t[1])
        o.append(me(fnum(t[0])) + " " + ("nanv 0" if y != y else me(y)) + " " + t[-1])
    return " ".join(o)


def perl(d, script, args):
    env = dict(os.environ, PERL5LIB=SCR)
    r = subprocess.run(["perl", os.path.join(SCR, script)] + args, cwd=d, env=env, stdout=subprocess.PIPE, stderr=subprocess.PIPE, timeout=600)
    return r.returncode


def scenario(rng, sid):
    d = tempfile.mkdtemp(prefix="c19_", dir=os.environ.get("VERIF_TMP", os.path.join(VERIF, ".cache", "tmp")))
    try:
        what = rng.choice(["ibi", "ibi", "binv", "linop", "scale", "shift", "smooth", "integrate", "combine", "extrap", "extrap"])
        n = rng.choice([3, 4, 5, 8, 13, 30, 60])
        xs = grid(rng, n)
        flags = [rng.choice("iiiiou") for _ in range(n)]
        head = "C19 %s %s" % (what, sid)
        if what == "ibi":
            kT = rng.choice([2.49435, 1.0, 0.5])
            aim = [num(rng, "rdf") for _ in range(n)]
            cur = [num(rng, "rdf") if rng.random() < 0.8 else aim[i] for i in range(n)]
            pflags = [rng.choice("iiiiiu") for _ in range(n)]
            write_table(os.path.join(d, "aim"), xs, aim, ["i"] * n)
            write_table(os.path.join(d, "cur"), xs, cur, ["i"] * n)
            write_table(os.path.join(d, "pot"), xs, [num(rng, "pot") for _ in range(n)], pflags)
            rc = perl(d, "update_ibi_pot.pl", ["aim", "cur", "pot", "out", repr(kT)])
            logs = [math.log(cur[i] / aim[i]) if (aim[i] > 1e-10 and cur[i] > 1e-10) else 0.0 for i in range(n)]
            line = "%s %s %d %s" % (head, me(kT), n, " ".join("%s %s %s %s %s" % (me(xs[i]), me(aim[i]), me(cur[i]), pflags[i], me(logs[i])) for i in range(n)))
        elif what == "binv":
            kT = rng.choice([2.49435, 1.0])
            typ = rng.choice(["non-bonded", "bond", "angle", "dihedral"])
            mn = rng.choice([0.0, 0.001, 0.01])
            n = max(n, 12)
            xs = grid(rng, n) if typ != "angle" else [round(0.1 + 2.9 * i / (n - 1), 6) for i in range(n)]
            if typ == "bond":
                xs = [x + 0.05 for x in xs]
            dist = [num(rng, "rdf") if (i < 2 or i > n - 2 or rng.random() < 0.15) else round(rng.uniform(0.02, 3.0), 4) for i in range(n)]
            write_table(os.path.join(d, "in"), xs, dist, ["i"] * n)
            rc = perl(d, "dist_boltzmann_invert.pl", ["--kbT", repr(kT), "--type", typ, "--min", repr(mn), "in", "out"])
            norm = [x * x if typ == "bond" else math.sin(x) if typ == "angle" else 1.0 for x in xs]
            logs = [math.log(dist[i] / norm[i]) if dist[i] > mn and dist[i] / norm[i] > 0 else 0.0 for i in range(n)]
            line = "%s %s %s %s %d %s" % (head, typ, me(kT), me(mn), n, " ".join("%s %s %s" % (me(xs[i]), me(dist[i]), me(logs[i])) for i in range(n)))
        elif what == "linop":
            a, b = num(rng, "x"), num(rng, "x")
            ys = [num(rng, "pot") for _ in range(n)]
            wf = rng.choice(["", "", "i", "o"])
            write_table(os.path.join(d, "in"), xs, ys, flags)
            rc = perl(d, "table_linearop.pl", (["--withflag", wf] if wf else []) + ["in", "out", repr(a), repr(b)])
            line = "%s %s %s %s %d %s" % (head, wf or "-", me(a), me(b), n, " ".join("%s %s %s" % (me(xs[i]), me(ys[i]), flags[i]) for i in range(n)))
        elif what == "scale":
            p1, p2 = num(rng, "x"), num(rng, "x")
            ys = [num(rng, "pot") for _ in range(n)]
            write_table(os.path.join(d, "in"), xs, ys, flags)
            rc = perl(d, "table_scale.pl", ["in", "out", repr(p1), repr(p2)])
            line = "%s %s %s %d %s" % (head, me(p1), me(p2), n, " ".join("%s %s %s" % (me(xs[i]), me(ys[i]), flags[i]) for i in range(n)))
        elif what == "shift":
            typ = rng.choice(["non-bonded", "bond", "angle", "dihedral"])
            ys = [num(rng, "pot") for _ in range(n)]
            # one table in three is an already shifted one (its minimum over the valid rows, or its last value, is exactly zero) or holds
            # whole numbers, written the way the scripts print them: "0", "-2"
            global INT_LITERALS
            if rng.random() < 0.33:
                INT_LITERALS = True
                iv = [ys[i] for i in range(n) if flags[i] == "i"]
                if iv and rng.random() < 0.7:
                    m0 = min(iv)
                    ys = [y - m0 for y in ys]
                else:
                    ys = [float(round(y)) for y in ys]
            write_table(os.path.join(d, "in"), xs, ys, flags)
            INT_LITERALS = False
            rc = perl(d, "potential_shift.pl", ["--type", typ, "in", "out"])
            line = "%s %s %d %s" % (head, typ, n, " ".join("%s %s %s" % (me(xs[i]), me(ys[i]), flags[i]) for i in range(n)))
        elif what == "smooth":
            ys = [num(rng, "pot") for _ in range(n)] if rng.random() < 0.7 else [round(1.5 * x - 2, 6) for x in xs]
            write_table(os.path.join(d, "in"), xs, ys, flags)
            rc = perl(d, "table_smooth.pl", ["in", "out"])
            line = "%s %d %s" % (head, n, " ".join("%s %s %s" % (me(xs[i]), me(ys[i]), flags[i]) for i in range(n)))
        elif what == "integrate":
            frm = rng.choice(["right", "left"])
            ys = [num(rng, "pot") for _ in range(n)]
            write_table(os.path.join(d, "in"), xs, ys, flags)
            rc = perl(d, "table_integrate.pl", ["--from", frm, "in", "out"])
            line = "%s %s %d %s" % (head, frm, n, " ".join("%s %s %s" % (me(xs[i]), me(ys[i]), flags[i]) for i in range(n)))
        elif what == "extrap":
            fn = rng.choice(["constant", "linear", "quadratic", "quadratic", "sasha", "periodic", "exponential"])
            region = rng.choice(["left", "right", "leftright", "leftright"])
            avg = rng.choice([1, 2, 3, 3, 5])
            curv = rng.choice([10000.0, 10000.0, 50.0, -3.0])
            fu = rng.random() < 0.8
            n = max(n, 2 * avg + 6)
            xs = grid(rng, n)
            pre, suf = rng.randint(0, 4), rng.randint(0, 4)
            while n - pre - suf < avg + 3:
                n += 1
            xs = grid(rng, n)
            flags = [rng.choice("ou") for _ in range(pre)] + ["i"] * (n - pre - suf) + [rng.choice("ou") for _ in range(suf)]
            if rng.random() < 0.15 and n - pre - suf > 2:
                flags[pre + 1 + rng.randrange(n - pre - suf - 2)] = "o"      # an out-of-range point inside
            ys = [num(rng, "pot") for _ in range(n)]
            if fn in ("sasha", "exponential") and rng.random() < 0.9:
                ys = [abs(y) + 0.5 for y in ys]                               # the usual case: positive repulsive wall
            write_table(os.path.join(d, "in"), xs, ys, flags)
            args = ["--function", fn, "--region", region, "--avgpoints", str(avg)]
            if fn == "quadratic":
                args += ["--curvature", repr(curv)]
            if not fu:
                args.append("--no-flagupdate")
            rc = perl(d, "table_extrapolate.pl", args + ["in", "out"])
            line = "%s %s %s %d %d %s %d %s" % (head, fn, region, int(fu), avg, me(curv), n, " ".join("%s %s %s" % (me(xs[i]), me(ys[i]), flags[i]) for i in range(n)))
        else:
            op = rng.choice(["+", "-", "x", "d"])
            ys = [num(rng, "pot") for _ in range(n)]
            zs = [num(rng, "pot") for _ in range(n)]
            sc = rng.choice([1.0, 1.0, 0.5, -2.0])
            write_table(os.path.join(d, "in1"), xs, ys, flags)
            write_table(os.path.join(d, "in2"), xs, zs, flags)
            rc = perl(d, "table_combine.pl", ["--op", op, "--scale", repr(sc), "in1", "in2", "out"])
            line = "%s %s %s %d %s" % (head, {"+": "add", "-": "sub", "x": "mul", "d": "dist"}[op], me(sc), n,
                                      " ".join("%s %s %s %s" % (me(xs[i]), me(ys[i]), me(zs[i]), flags[i]) for i in range(n)))
        outp = os.path.join(d, "out")
        if rc == 0 and os.path.exists(outp):
            return line + " | ok " + out_rows(read_table(outp))
        return line + " | err%d 0" % rc
    finally:
        shutil.rmtree(d, ignore_errors=True)


def mk(seed, i):
    return random.Random(seed * 1000003 + i), "%d:%d" % (seed, i)


def main():
    mode = sys.argv[1]
    n = int(sys.argv[2]) if len(sys.argv) > 2 else 50
    seed = int(os.environ.get("VERIF_SEED", "1"))
    os.makedirs(os.environ.get("VERIF_TMP", os.path.join(VERIF, ".cache", "tmp")), exist_ok=True)
    if mode == "rand":
        scen = [mk(seed, i) for i in range(n)]
    else:
        scen = []
        for line in sys.stdin:
            for t in re.findall(r"C19 \w+ (\d+:\d+)", line):
                a, b = t.split(":")
                scen.append(mk(int(a), int(b)))
    with ThreadPoolExecutor(int(os.environ.get("VERIF_JOBS", "12"))) as ex:
        for line in ex.map(lambda s: scenario(s[0], s[1]), scen):
            sys.stdout.write(line + "\n")


if __name__ == "__main__":
    main()
