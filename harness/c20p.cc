// C20 correspondence harness, second part: the OTHER PLACES of the library that encode a unit conversion.  Files with known
// values in the units of their format are read by the real readers (and frames with known values written by the real writers);
// the effective factor each code path applied is printed as   C20 place <label> <kind> <factor>
//   kind len    : Angstrom -> nm            (positions, box lengths; velocities too: the readers leave the time unit alone)
//   kind invlen : nm -> Angstrom
//   kind force  : kcal/mol/Angstrom -> kJ/mol/nm         kind invforce : the reverse
// One line per path (coordinate flavours x y z / xu yu zu / xs ys zs of the LAMMPS dump reader are separate paths).
#include "common.h"
#include <fstream>
#include <sstream>
#include <unistd.h>
#include <votca/csg/topology.h>
#include <votca/csg/topologyreader.h>
#include <votca/csg/trajectoryreader.h>
#include <votca/csg/trajectorywriter.h>
using namespace votca;
using namespace votca::csg;
typedef Eigen::Vector3d V;
typedef Eigen::Matrix3d M;

static std::string tmpdir() { const char *d = getenv("VERIF_TMP"); return d ? d : "."; }
static std::string tmpfile_(const std::string &ext) {
  static int k = 0;
  return tmpdir() + "/c20p_" + std::to_string((int)getpid()) + "_" + std::to_string(k++) + "." + ext;
}
static void place(const std::string &label, const char *kind, double f) { printf("C20 place %s %s %s\n", hexs(label).c_str(), kind, dexact(f).c_str()); }
static void failed(const std::string &label, const std::string &why) { printf("C20 placeerr %s %s\n", hexs(label).c_str(), hexs(why).c_str()); }

// the values written into the files, in the units of the format (Angstrom, Angstrom per time, kcal/mol/Angstrom)
static const double PX = 7.0, PY = 3.5, PZ = 12.25, VX = 2.0, FX = 8.0, BOXL = 20.0;

static void dump_reader(const std::string &cols, bool scaled) {
  std::string label = "LAMMPSDumpReader " + cols;
  std::string file = tmpfile_("dump");
  {
    std::ofstream o(file);
    o << "ITEM: TIMESTEP\n0\nITEM: NUMBER OF ATOMS\n1\nITEM: BOX BOUNDS pp pp pp\n0 " << BOXL << "\n0 " << BOXL << "\n0 " << BOXL << "\n";
    o << "ITEM: ATOMS id type " << cols << " vx vy vz fx fy fz\n";
    double x = scaled ? PX / BOXL : PX, y = scaled ? PY / BOXL : PY, z = scaled ? PZ / BOXL : PZ;
    o << "1 1 " << x << " " << y << " " << z << " " << VX << " 0 0 " << FX << " 0 0\n";
  }
  try {
    Topology top;
    std::unique_ptr<TopologyReader> tr = TopReaderFactory().Create(file);
    if (!tr) throw std::runtime_error("no topology reader");
    tr->ReadTopology(file, top);
    if (top.BeadCount() != 1) throw std::runtime_error("bead count");
    std::unique_ptr<TrajectoryReader> t = TrjReaderFactory().Create(file);
    t->Open(file);
    if (!t->FirstFrame(top)) throw std::runtime_error("no frame");
    Bead *b = top.getBead(0);
    place(label + " position x", "len", b->getPos().x() / PX);
    place(label + " position y", "len", b->getPos().y() / PY);
    place(label + " position z", "len", b->getPos().z() / PZ);
    place(label + " box", "len", top.getBox()(0, 0) / BOXL);
    if (b->HasVel()) place(label + " velocity", "len", b->getVel().x() / VX);
    if (b->HasF()) place(label + " force", "force", b->getF().x() / FX);
    t->Close();
  } catch (std::exception &e) { failed(label, e.what()); }
  unlink(file.c_str());
}

static void one_bead(Topology &top) {
  top.CreateResidue("RES");
  top.RegisterBeadType("C");
  Molecule *m = top.CreateMolecule("M");
  Bead *b = top.CreateBead(Bead::spherical, "C1", "C", 0, 12.0, 0.0);
  m->AddBead(b, "C1");
}

static std::vector<double> numbers(const std::string &line) {
  std::vector<double> v;
  std::istringstream is(line);
  std::string tok;
  while (is >> tok) { char *end = nullptr; double d = strtod(tok.c_str(), &end); if (end && *end == 0 && end != tok.c_str()) v.push_back(d); }
  return v;
}

static void dump_writer() {
  std::string label = "LAMMPSDumpWriter";
  std::string file = tmpfile_("dump");
  try {
    Topology top;
    one_bead(top);
    M box = M::Zero(); box(0, 0) = box(1, 1) = box(2, 2) = 2.0;
    top.setBox(box);
    top.SetHasVel(true); top.SetHasForce(true);
    Bead *b = top.getBead(0);
    b->setPos(V(0.7, 0.35, 1.225)); b->setVel(V(0.2, 0, 0)); b->setF(V(800.0, 0, 0));
    auto w = TrjWriterFactory().Create(file);
    w->Open(file, false); w->Write(&top); w->Close();
    std::ifstream in(file);
    std::string line, prev;
    int boxline = -1;
    while (std::getline(in, line)) {
      if (boxline >= 0 && boxline < 1) { auto v = numbers(line); if (v.size() >= 2) place(label + " box", "invlen", (v[1] - v[0]) / 2.0); boxline++; }
      if (line.rfind("ITEM: BOX", 0) == 0) boxline = 0;
      if (prev.rfind("ITEM: ATOMS", 0) == 0) {
        auto v = numbers(line);   // id type x y z vx vy vz fx fy fz
        if (v.size() >= 5) place(label + " position", "invlen", v[2] / 0.7);
        if (v.size() >= 8) place(label + " velocity", "invlen", v[5] / 0.2);
        if (v.size() >= 11) place(label + " force", "invforce", v[8] / 800.0);
      }
      prev = line;
    }
  } catch (std::exception &e) { failed(label, e.what()); }
  unlink(file.c_str());
}

static void xyz_paths() {
  std::string file = tmpfile_("xyz");
  { std::ofstream o(file); o << "1\ncomment\nC " << PX << " " << PY << " " << PZ << "\n"; }
  try {
    Topology top;
    auto tr = TopReaderFactory().Create(file);
    if (!tr) throw std::runtime_error("no reader");
    tr->ReadTopology(file, top);
    place("XYZReader position", "len", top.getBead(0)->getPos().x() / PX);
    place("XYZReader position z", "len", top.getBead(0)->getPos().z() / PZ);
  } catch (std::exception &e) { failed("XYZReader", e.what()); }
  unlink(file.c_str());
  std::string out = tmpfile_("xyz");
  try {
    Topology top;
    one_bead(top);
    top.getBead(0)->setPos(V(0.7, 0.35, 1.225));
    auto w = TrjWriterFactory().Create(out);
    w->Open(out, false); w->Write(&top); w->Close();
    std::ifstream in(out);
    std::string line;
    int k = 0;
    while (std::getline(in, line)) { if (++k == 3) { auto v = numbers(line); if (v.size() >= 3) place("XYZWriter position", "invlen", v[v.size() - 3] / 0.7); } }
  } catch (std::exception &e) { failed("XYZWriter", e.what()); }
  unlink(out.c_str());
}

static void pdb_paths() {
  std::string file = tmpfile_("pdb");
  {
    FILE *f = fopen(file.c_str(), "w");
    fprintf(f, "CRYST1%9.3f%9.3f%9.3f%7.2f%7.2f%7.2f P 1           1\n", BOXL, BOXL, BOXL, 90.0, 90.0, 90.0);
    fprintf(f, "ATOM  %5d %-4s %3s %1s%4d    %8.3f%8.3f%8.3f%6.2f%6.2f          %2s\n", 1, "C1", "RES", "A", 1, PX, PY, PZ, 1.0, 0.0, "C");
    fprintf(f, "END\n");
    fclose(f);
  }
  try {
    Topology top;
    auto tr = TopReaderFactory().Create(file);
    if (!tr) throw std::runtime_error("no reader");
    tr->ReadTopology(file, top);
    if (top.BeadCount() < 1) throw std::runtime_error("no bead");
    place("PDBReader position", "len", top.getBead(0)->getPos().x() / PX);
    place("PDBReader box", "len", top.getBox()(0, 0) / BOXL);
  } catch (std::exception &e) { failed("PDBReader", e.what()); }
  unlink(file.c_str());
  std::string out = tmpfile_("pdb");
  try {
    Topology top;
    one_bead(top);
    M box = M::Zero(); box(0, 0) = box(1, 1) = box(2, 2) = 2.0;
    top.setBox(box);
    top.getBead(0)->setPos(V(0.7, 0.35, 1.225));
    auto w = TrjWriterFactory().Create(out);
    w->Open(out, false); w->Write(&top); w->Close();
    std::ifstream in(out);
    std::string line;
    while (std::getline(in, line)) {
      if (line.rfind("CRYST1", 0) == 0 && line.size() >= 15) place("PDBWriter box", "invlen", atof(line.substr(6, 9).c_str()) / 2.0);
      if ((line.rfind("ATOM", 0) == 0 || line.rfind("HETATM", 0) == 0) && line.size() >= 38) place("PDBWriter position", "invlen", atof(line.substr(30, 8).c_str()) / 0.7);
    }
  } catch (std::exception &e) { failed("PDBWriter", e.what()); }
  unlink(out.c_str());
}

static void lammpsdata_reader() {
  std::string file = tmpfile_("data");
  {
    std::ofstream o(file);
    o << "LAMMPS data file\n\n1 atoms\n1 atom types\n\n0 " << BOXL << " xlo xhi\n0 " << BOXL << " ylo yhi\n0 " << BOXL << " zlo zhi\n\nMasses\n\n1 12.011\n\nAtoms # full\n\n";
    o << "1 1 1 0.0 " << PX << " " << PY << " " << PZ << "\n";
  }
  try {
    Topology top;
    auto tr = TopReaderFactory().Create(file);
    if (!tr) throw std::runtime_error("no reader");
    tr->ReadTopology(file, top);
    if (top.BeadCount() < 1) throw std::runtime_error("no bead");
    place("LAMMPSDataReader position", "len", top.getBead(0)->getPos().x() / PX);
    place("LAMMPSDataReader box", "len", top.getBox()(0, 0) / BOXL);
  } catch (std::exception &e) { failed("LAMMPSDataReader", e.what()); }
  unlink(file.c_str());
}

int main() {
  TopologyReader::RegisterPlugins();
  TrajectoryReader::RegisterPlugins();
  TrajectoryWriter::RegisterPlugins();
  dump_reader("x y z", false);
  dump_reader("xu yu zu", false);
  dump_reader("xs ys zs", true);
  dump_writer();
  xyz_paths();
  pdb_paths();
  lammpsdata_reader();
  return 0;
}
