#!/usr/bin/env python3
"""C01 harness, executable leg: runs the REAL csg_map (built from the working tree) on complete generated inputs — the XML
topology and mapping files of the C04 generator (chain molecule + solvent, random weights), optional `<d>` coefficients,
trajectories written as .gro (positions, optionally velocities, orthorhombic or triclinic boxes) or LAMMPS .dump (positions,
optionally velocities and forces), output as .gro or .dump with --vel / --force — and prints one protocol line per run: the
atoms of every frame as the doubles the reader produces, the bead definitions, and everything csg_map wrote.

Nothing of the mapping is computed here.  The only arithmetic reproduced is the unit conversion of the dump reader on input
(`stod(s) * ang2nm`, `stod(s) * kcal2kj / ang2nm`, the constants read from constants.h) and its inverse on output."""
import math, os, random, re, shutil, subprocess, sys, tempfile
from concurrent.futures import ThreadPoolExecutor
from decimal import Decimal

sys.path.insert(0, os.path.dirname(os.path.abspath(__file__)))
import c04 as g

os.environ.setdefault("OMP_NUM_THREADS", "1")     # many runs in parallel: one thread each (no oversubscription, no timeouts under load)
VERIF = g.VERIF
REPO = os.environ.get("VOTCA_REPO", "/repo")
me, dec = g.me, g.dec


def constants():
    src = open(REPO + "/tools/include/votca/tools/constants.h").read()
    c = {}
    for k in ("ang2nm", "nm2ang", "kcal2kj"):
        m = re.search(r"const double %s = ([0-9.eE+-]+);" % k, src)
        if not m:
            sys.exit("constants.h: %s not found" % k)
        c[k] = float(m.group(1))
    return c


def gen(rng):
    s = g.gen(rng)
    s.fin = rng.choice(["gro", "gro", "dump"])
    s.fout = rng.choice(["gro", "gro", "dump"])
    if s.fin == "dump":
        # the dump format stores the box diagonal only
        s.boxes = [("o", b[1], (0, 0, 0)) for b in s.boxes]
    s.vel = rng.random() < 0.5
    s.frc = s.fin == "dump" and rng.random() < 0.6
    natoms = len(s.frames[0])
    s.vels = [[[round(rng.uniform(-3, 3), 4) for _ in range(3)] for _ in range(natoms)] for _ in s.frames]
    s.frcs = [[[round(rng.uniform(-50, 50), 3) for _ in range(3)] for _ in range(natoms)] for _ in s.frames]
    # d coefficients on some maps of the chain molecule
    s.ds = []
    for (t, ws) in s.m_beads:
        ds = None
        if rng.random() < 0.3:
            ds = [rng.choice([1, 0.5, 2, 0, 0.25]) for _ in ws]
            while sum(ds) == 0:          # the property quantifies over d vectors with non-zero sum (the loader normalises them)
                ds = [rng.choice([1, 0.5, 2, 0, 0.25]) for _ in ws]
        s.ds.append(ds)
    # a zero weight now and then (with at least one non-zero weight left)
    for (t, ws) in s.m_beads:
        if len(ws) >= 2 and rng.random() < 0.15:
            ws[rng.randrange(1, len(ws))] = 0
    # a molecule wider than half the box in one frame (about one run in seven): csg_map has to refuse
    s.far = None
    multi = [b for b, (t, ws) in enumerate(s.m_beads) if len(ws) >= 2]
    if multi and rng.random() < 0.15:
        fr = rng.randrange(len(s.frames))
        b = rng.choice(multi)
        first = sum(len(ws) for (_, ws) in s.m_beads[:b])
        mol = rng.randrange(s.n_m)
        natm = sum(len(ws) for (_, ws) in s.m_beads)
        a = mol * natm + first + rng.randrange(1, len(s.m_beads[b][1]))
        L = s.boxes[fr][1]
        f = rng.choice([0.42, 0.45, 0.38])
        s.frames[fr][a] = [round(s.frames[fr][mol * natm + first][i] + f * L[i], 3) for i in range(3)]
        s.far = (fr, a)
    # placements relative to the box faces: in about half of the runs atoms are moved by whole box vectors (any atom, any
    # frame, up to three images away along every box vector), so that molecules are cut by 0..3 faces and the boxes of
    # successive frames (which differ) are each used for the unwrapping of their own frame
    s.wrapped = 0
    if rng.random() < 0.5:
        for fr in range(len(s.frames)):
            kind, L, off = s.boxes[fr]
            if kind == "t" and s.fin != "dump":
                vecs = [(L[0], 0, 0), (off[0], L[1], 0), (off[1], off[2], L[2])]
            else:
                vecs = [(L[0], 0, 0), (0, L[1], 0), (0, 0, L[2])]
            for a in range(len(s.frames[fr])):
                if rng.random() < 0.3:
                    k = [rng.choice([-3, -2, -1, -1, 0, 0, 1, 1, 2, 3]) for _ in range(3)]
                    if k == [0, 0, 0]:
                        continue
                    x = s.frames[fr][a]
                    s.frames[fr][a] = [round(x[i] + sum(k[j] * vecs[j][i] for j in range(3)), 3) for i in range(3)]
                    s.wrapped += 1
    s.first, s.nframes = 0, -1
    return s


def write_traj(s, d, C):
    """returns per frame: box rows (a, b, c) and per atom (pos, vel|None, frc|None) as the doubles the reader stores"""
    natm = sum(len(ws) for (_, ws) in s.m_beads)
    frames = []
    if s.fin == "gro":
        with open(os.path.join(d, "traj.gro"), "w") as f:
            for fr, atoms in enumerate(s.frames):
                f.write("frame t= %d.0\n%5d\n" % (fr, len(atoms)))
                k, res, rec = 0, 0, []
                for (cnt, na, mn, an) in [(s.n_m, natm, "M", "a"), (s.n_s, len(s.s_weights), "S", "s")]:
                    for m in range(cnt):
                        res += 1
                        for a in range(na):
                            x, v = atoms[k], s.vels[fr][k]
                            k += 1
                            line = "%5d%-5s%5s%5d%8.3f%8.3f%8.3f" % (res, mn, "%s%d" % (an, a + 1), k, x[0], x[1], x[2])
                            if s.vel:
                                line += "%8.4f%8.4f%8.4f" % tuple(v)
                            f.write(line + "\n")
                            rec.append(([float("%8.3f" % c) for c in x], [float("%8.4f" % c) for c in v] if s.vel else None, None))
                kind, L, off = s.boxes[fr]
                f5 = lambda v: float("%10.5f" % v)
                if kind == "o":
                    f.write("%10.5f%10.5f%10.5f\n" % tuple(L))
                    box = [(f5(L[0]), 0.0, 0.0), (0.0, f5(L[1]), 0.0), (0.0, 0.0, f5(L[2]))]
                else:
                    f.write("%10.5f%10.5f%10.5f%10.5f%10.5f%10.5f%10.5f%10.5f%10.5f\n" % (L[0], L[1], L[2], 0, 0, off[0], 0, off[1], off[2]))
                    box = [(f5(L[0]), 0.0, 0.0), (f5(off[0]), f5(L[1]), 0.0), (f5(off[1]), f5(off[2]), f5(L[2]))]
                frames.append((box, rec))
        return "traj.gro", frames
    with open(os.path.join(d, "traj.dump"), "w") as f:
        for fr, atoms in enumerate(s.frames):
            kind, L, off = s.boxes[fr]
            f.write("ITEM: TIMESTEP\n%d\nITEM: NUMBER OF ATOMS\n%d\nITEM: BOX BOUNDS pp pp pp\n" % (fr, len(atoms)))
            bs = ["%.4f" % (L[i] * 10) for i in range(3)]
            for b in bs:
                f.write("0 %s\n" % b)
            f.write("ITEM: ATOMS id type x y z%s%s\n" % (" vx vy vz" if s.vel else "", " fx fy fz" if s.frc else ""))
            rec = []
            for k, x in enumerate(atoms):
                xs = ["%.3f" % (c * 10) for c in x]
                vs = ["%.4f" % c for c in s.vels[fr][k]]
                fs = ["%.3f" % c for c in s.frcs[fr][k]]
                f.write("%d 1 %s%s%s\n" % (k + 1, " ".join(xs), (" " + " ".join(vs)) if s.vel else "", (" " + " ".join(fs)) if s.frc else ""))
                rec.append(([float(t) * C["ang2nm"] for t in xs], [float(t) * C["ang2nm"] for t in vs] if s.vel else None,
                            [float(t) * C["kcal2kj"] / C["ang2nm"] for t in fs] if s.frc else None))
            box = [((float(bs[0]) - 0.0) * C["ang2nm"], 0.0, 0.0), (0.0, (float(bs[1]) - 0.0) * C["ang2nm"], 0.0), (0.0, 0.0, (float(bs[2]) - 0.0) * C["ang2nm"])]
            frames.append((box, rec))
    return "traj.dump", frames


def patch_maps(s, d):
    p = os.path.join(d, "m.xml")
    t = open(p).read()
    for b, ds in enumerate(s.ds):
        ws = s.m_beads[b][1]
        t = re.sub(r"<map><name>W%d</name><weights>[^<]*</weights>" % (b + 1),
                   "<map><name>W%d</name><weights>%s</weights>%s" % (b + 1, " ".join(dec(str(w)) for w in ws),
                                                                    ("<d>%s</d>" % " ".join(dec(str(x)) for x in ds)) if ds else ""), t)
    open(p, "w").write(t)


def parse_out(s, d, C):
    """frames of (beads: pos, vel|None, frc|None)"""
    out = []
    if s.fout == "gro":
        lines = open(os.path.join(d, "out.gro")).read().split("\n")
        i = 0
        while i < len(lines) and lines[i].strip() != "" or (i + 1 < len(lines) and lines[i + 1].strip() != ""):
            if i + 1 >= len(lines):
                break
            n = int(lines[i + 1])
            beads = []
            for l in lines[i + 2:i + 2 + n]:
                pos = [float(l[20 + 8 * k:28 + 8 * k]) for k in range(3)]
                vel = [float(l[44 + 8 * k:52 + 8 * k]) for k in range(3)] if len(l.rstrip("\n")) >= 68 else None
                beads.append((pos, vel, None))
            out.append(beads)
            i += n + 3
        return out
    cur, cols = None, None
    for l in open(os.path.join(d, "out.dump")):
        if l.startswith("ITEM: ATOMS"):
            cols = l.split()[2:]
            cur = []
            out.append(cur)
        elif l.startswith("ITEM:"):
            cols = None
        elif cols is not None:
            t = l.split()
            v = dict(zip(cols, t))
            pos = [float(v[c]) * C["ang2nm"] for c in ("x", "y", "z")]
            vel = [float(v[c]) * C["ang2nm"] for c in ("vx", "vy", "vz")] if "vx" in v else None
            frc = [float(v[c]) * C["kcal2kj"] / C["ang2nm"] for c in ("fx", "fy", "fz")] if "fx" in v else None
            cur.append((pos, vel, frc))
    return out


def v3(x):
    return " ".join(me(c) for c in x)


def run_one(exe, s, C):
    d = tempfile.mkdtemp(prefix="c01m_", dir=os.environ.get("VERIF_TMP", os.path.join(VERIF, ".cache", "tmp")))
    try:
        g.write_inputs(s, d)
        patch_maps(s, d)
        trj, frames = write_traj(s, d, C)
        cmd = [exe, "--top", "topol.xml", "--trj", trj, "--cg", "m.xml;s.xml", "--out", "out." + s.fout]
        if s.vel:
            cmd.append("--vel")
        if s.frc:
            cmd.append("--force")
        try:
            r = subprocess.run(cmd, cwd=d, stdout=subprocess.PIPE, stderr=subprocess.PIPE, timeout=900)
            rc = r.returncode
            msg = (r.stdout.decode(errors="replace")[-300:] + r.stderr.decode(errors="replace")[-300:])
        except subprocess.TimeoutExpired:
            rc, msg = 99, "timeout"
        # tolerances of the output format: gro %8.3f / %8.4f, dump %f of Å values (forces: %f of kcal/mol/Å)
        tol = ("6e-4", "6e-5", "1") if s.fout == "gro" else ("2e-7", "2e-7", "1e-4")
        o = ["C01 erun %s %s %s %d %d %s %s %s" % (s.sid, s.fin, s.fout, int(s.vel), int(s.frc), me(float(tol[0])), me(float(tol[1])), me(float(tol[2])))]
        # bead definitions (atom indices per frame are the same in every frame)
        natm = sum(len(ws) for (_, ws) in s.m_beads)
        beads = []
        for m in range(s.n_m):
            k = m * natm
            for b, (t, ws) in enumerate(s.m_beads):
                beads.append(([k + i for i in range(len(ws))], [float(dec(str(w))) for w in ws], None if s.ds[b] is None else [float(dec(str(x))) for x in s.ds[b]]))
                k += len(ws)
        base = s.n_m * natm
        for m in range(s.n_s):
            n = len(s.s_weights)
            beads.append(([base + m * n + i for i in range(n)], [float(dec(str(w))) for w in s.s_weights], None))
        o.append("%d" % len(beads))
        for (idx, ws, ds) in beads:
            o.append("%d %s %s %d %s" % (len(idx), " ".join(map(str, idx)), " ".join(me(w) for w in ws), -1 if ds is None else len(ds), "" if ds is None else " ".join(me(x) for x in ds)))
        o.append("%d" % len(frames))
        for (box, rec) in frames:
            o.append(" ".join(v3(r) for r in box))
            o.append("%d" % len(rec))
            for (p, v, f) in rec:
                o.append("1%d%d %s %s %s %s" % (int(v is not None), int(f is not None), me(1.0), v3(p), v3(v or [0, 0, 0]), v3(f or [0, 0, 0])))
        o.append("|")
        if rc != 0:
            kind = "halfbox" if "bigger than half the box" in msg else "other"
            o.append("ERR %s" % kind)
        else:
            res = parse_out(s, d, C)
            o.append("OK %d" % len(res))
            for fr in res:
                o.append("%d" % len(fr))
                for (p, v, f) in fr:
                    o.append("1%d%d %s %s %s %s" % (int(v is not None), int(f is not None), me(1.0), v3(p), v3(v or [0, 0, 0]), v3(f or [0, 0, 0])))
        return " ".join(" ".join(o).split())
    except Exception as e:      # a malformed output file is a result, not a harness failure
        return "C01 erun %s harness-exception %s" % (s.sid, g.hexs(repr(e)[:200]))
    finally:
        shutil.rmtree(d, ignore_errors=True)


def mk(seed, i):
    s = gen(random.Random(seed * 1000003 + i + 77))
    s.sid = "%d:%d" % (seed, i)
    return s


def main():
    exe, mode = sys.argv[1], sys.argv[2]
    n = int(sys.argv[3]) if len(sys.argv) > 3 else 50
    seed = int(os.environ.get("VERIF_SEED", "1"))
    os.makedirs(os.environ.get("VERIF_TMP", os.path.join(VERIF, ".cache", "tmp")), exist_ok=True)
    C = constants()
    if mode == "rand":
        scen = [mk(seed, i) for i in range(n)]
    else:
        scen = []
        for line in sys.stdin:
            for t in re.findall(r"C01 erun (\d+:\d+)", line):
                a, b = t.split(":")
                scen.append(mk(int(a), int(b)))
    with ThreadPoolExecutor(int(os.environ.get("VERIF_JOBS", "12"))) as ex:
        for line in ex.map(lambda s: run_one(exe, s, C), scen):
            sys.stdout.write(line + "\n")


if __name__ == "__main__":
    main()
