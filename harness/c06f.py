#!/usr/bin/env python3
"""C06 harness (csg_fmatch executable): generates a topology (single beads of two types and dimers with a bond), a 1:1 mapping,
a LAMMPS dump trajectory with per-frame boxes whose forces are generated EXACTLY from pair and bond force functions that are
natural cubic splines on the force-matching grid, runs the REAL csg_fmatch and prints one protocol line per run: the
positions and reference forces as the reader sees them, the options and every written .force table.
The model (Lean) recomputes the forces from the written tables and compares them with the reference forces."""
import math, os, random, re, shutil, subprocess, sys, tempfile
from concurrent.futures import ThreadPoolExecutor
from fractions import Fraction as Fr

os.environ.setdefault("OMP_NUM_THREADS", "1")     # many runs in parallel: one thread each (no oversubscription, no timeouts under load)
VERIF = os.path.dirname(os.path.dirname(os.path.abspath(__file__)))
KCAL2KJ = 4.18679994            # tools/constants.h (the reader multiplies forces by kcal2kj / ang2nm)
ANG2NM = 0.1


def me(x):
    if x == 0:
        return "0 0"
    if x != x or x in (float("inf"), float("-inf")):
        return "nan 0"
    m, e = math.frexp(x)
    return "%d %d" % (int(m * (1 << 53)), e - 53)


def natural_f2(xs, fs):
    """second derivatives of the natural cubic spline through (xs, fs): Thomas algorithm in floats"""
    n = len(xs)
    if n < 3:
        return [0.0] * n
    a, b, c, d = [0.0] * n, [1.0] * n, [0.0] * n, [0.0] * n
    for i in range(1, n - 1):
        h0, h1 = xs[i] - xs[i - 1], xs[i + 1] - xs[i]
        a[i], b[i], c[i] = h0 / 6, (h0 + h1) / 3, h1 / 6
        d[i] = (fs[i + 1] - fs[i]) / h1 - (fs[i] - fs[i - 1]) / h0
    for i in range(1, n):
        w = a[i] / b[i - 1]
        b[i] -= w * c[i - 1]
        d[i] -= w * d[i - 1]
    x = [0.0] * n
    x[-1] = d[-1] / b[-1]
    for i in range(n - 2, -1, -1):
        x[i] = (d[i] - c[i] * x[i + 1]) / b[i]
    return x


def spline_eval(xs, fs, f2, r):
    i = 0
    while i < len(xs) - 2 and r >= xs[i + 1]:
        i += 1
    h = xs[i + 1] - xs[i]
    A = (xs[i + 1] - r) / h
    B = 1 - A
    C = (A ** 3 - A) * h * h / 6
    D = (B ** 3 - B) * h * h / 6
    return A * fs[i] + B * fs[i + 1] + C * f2[i] + D * f2[i + 1]


def grid(mn, mx, step):
    """Spline::GenerateGrid: n = (Index)((max-min)/h + 1.00000001) points, the last one pinned to max"""
    n = int((mx - mn) / step + 1.00000001)
    return [mn + i * step for i in range(n - 1)] + [mx]


def gen(rng):
    s = {}
    s["nA"] = rng.randint(20, 32)
    s["nB"] = rng.choice([0, 0, rng.randint(14, 20)])
    s["nD"] = rng.choice([0, 0, rng.randint(12, 18)])      # dimers A-B with a bond
    s["nT"] = rng.choice([0, 0, rng.randint(20, 28)])      # trimers A-B-A with two bonds and an angle
    s["nQ"] = rng.choice([0, 0, 0, rng.randint(30, 40)])   # tetramers A-B-B-A with three bonds, two angles and a dihedral
    s["frames"] = rng.randint(2, 6)
    s["fpb"] = rng.choice([1, 1, 2, 3])
    s["fpb"] = min(s["fpb"], s["frames"])
    s["cls"] = rng.random() < 0.5
    L = round(rng.uniform(2.4, 3.2), 3)
    s["L"] = L
    inter = []
    step = rng.choice([0.1, 0.125, 0.2])
    mx = 1.0
    mn = 0.2 if step != 0.125 else 0.25
    types_present = ["A"] + (["B"] if (s["nB"] or s["nD"] or s["nT"] or s["nQ"]) else [])
    pairs = [("A", "A")] + ([("A", "B")] if "B" in types_present and (s["nD"] or s["nT"] or s["nQ"] or rng.random() < 0.7) else []) + ([("B", "B")] if "B" in types_present and (s["nQ"] or rng.random() < 0.4) else [])
    for (t1, t2) in pairs:
        xs = grid(mn, mx, step)
        fs = [round(rng.uniform(-50, 120) * (1 - k / len(xs)), 3) for k in range(len(xs))]
        inter.append(dict(name="%s-%s" % (t1, t2), bonded=False, t1=t1, t2=t2, min=mn, max=mx, step=step, xs=xs, fs=fs, f2=natural_f2(xs, fs)))
    if s["nD"] or s["nT"] or s["nQ"]:
        xs = grid(0.1, 0.5, 0.1)
        fs = [round(rng.uniform(-300, 300), 2) for _ in xs]
        inter.append(dict(name="bond", bonded=True, angle=False, t1="", t2="", min=0.1, max=0.5, step=0.1, xs=xs, fs=fs, f2=natural_f2(xs, fs)))
    if s["nT"] or s["nQ"]:
        xs = grid(1.0, 3.0, 0.5)
        fs = [round(rng.uniform(-80, 80), 2) for _ in xs]
        inter.append(dict(name="angle", bonded=True, angle=True, t1="", t2="", min=1.0, max=3.0, step=0.5, xs=xs, fs=fs, f2=natural_f2(xs, fs)))
    if s["nQ"]:
        xs = grid(-3.2, 3.2, 0.8)
        fs = [round(rng.uniform(-40, 40), 2) for _ in xs]
        inter.append(dict(name="dihedral", bonded=True, angle=False, dihedral=True, t1="", t2="", min=-3.2, max=3.2, step=0.8, xs=xs, fs=fs, f2=natural_f2(xs, fs)))
    for it in inter:
        it.setdefault("angle", False)
        it.setdefault("dihedral", False)
    s["inter"] = inter
    # beads: A..., B..., dimers (A then B)
    types = ["A"] * s["nA"] + ["B"] * s["nB"]
    mols = list(range(len(types)))
    bonds = []
    for d in range(s["nD"]):
        i = len(types)
        types += ["A", "B"]
        mols += [len(mols) and max(mols) + 1] * 2
        bonds.append((i, i + 1))
    angles = []
    for t in range(s["nT"]):
        i = len(types)
        types += ["A", "B", "A"]
        mols += [max(mols) + 1 if mols else 0] * 3
        bonds += [(i, i + 1), (i + 1, i + 2)]
        angles.append((i, i + 1, i + 2))
    dihedrals = []
    for t in range(s["nQ"]):
        i = len(types)
        types += ["A", "B", "B", "A"]
        mols += [max(mols) + 1 if mols else 0] * 4
        bonds += [(i, i + 1), (i + 1, i + 2), (i + 2, i + 3)]
        angles += [(i, i + 1, i + 2), (i + 1, i + 2, i + 3)]
        dihedrals.append((i, i + 1, i + 2, i + 3))
    s["types"], s["mols"], s["bonds"], s["angles"], s["dihedrals"] = types, mols, bonds, angles, dihedrals
    n = len(types)
    s["pos"] = []
    for f in range(s["frames"]):
        # positions in Angstrom with 4 decimals; no two beads closer than the grid minimum (+ margin)
        pts = []
        tries = 0
        while len(pts) < n and tries < 20000:
            tries += 1
            i = len(pts)
            partner = [b for b in bonds if b[1] == i]
            tri = [a for a in angles if a[2] == i]
            quad = [d4 for d4 in dihedrals if d4[3] == i]
            if quad:
                # fourth bead of a tetramer: bond angle and dihedral drawn away from the singular geometries (sin = 0)
                p0, p1, p2 = pts[quad[0][0]], pts[quad[0][1]], pts[quad[0][2]]
                bc = [p2[k] - p1[k] for k in range(3)]
                nb = math.sqrt(sum(c * c for c in bc))
                bc = [c / nb for c in bc]
                ab = [p1[k] - p0[k] for k in range(3)]
                nn = cross(ab, bc)
                nl = math.sqrt(sum(c * c for c in nn)) or 1.0
                nn = [c / nl for c in nn]
                mm = cross(nn, bc)
                th = rng.uniform(1.05, 2.95)
                ph = rng.uniform(0.2, 2.94) * rng.choice([-1, 1])
                l = rng.uniform(1.3, 4.7)
                d2 = [-l * math.cos(th), l * math.sin(th) * math.cos(ph), l * math.sin(th) * math.sin(ph)]
                p = [round(p2[k] + d2[0] * bc[k] + d2[1] * mm[k] + d2[2] * nn[k], 4) for k in range(3)]
            elif tri:
                # third bead of a trimer: at an angle drawn uniformly from the angle grid, seen from the middle bead
                q, q0 = pts[tri[0][1]], pts[tri[0][0]]
                e1 = [q0[k] - q[k] for k in range(3)]
                n1 = math.sqrt(sum(c * c for c in e1))
                e1 = [c / n1 for c in e1]
                v = [rng.gauss(0, 1) for _ in range(3)]
                dp = sum(v[k] * e1[k] for k in range(3))
                v = [v[k] - dp * e1[k] for k in range(3)]
                nv = math.sqrt(sum(c * c for c in v)) or 1.0
                e2 = [c / nv for c in v]
                th = rng.uniform(1.05, 2.95)
                l = rng.uniform(1.3, 4.7)
                p = [round(q[k] + l * (math.cos(th) * e1[k] + math.sin(th) * e2[k]), 4) for k in range(3)]
            elif partner:
                q = pts[partner[0][0]]
                l = rng.uniform(1.3, 4.7)
                v = [rng.gauss(0, 1) for _ in range(3)]
                nv = math.sqrt(sum(c * c for c in v))
                p = [round(q[k] + l * v[k] / nv, 4) for k in range(3)]
            elif pts and rng.random() < 0.8:
                # at a distance drawn uniformly from the grid range from an earlier bead: every interval gets samples
                q = rng.choice(pts)
                l = rng.uniform(10 * mn + 0.3, 10 * mx)
                v = [rng.gauss(0, 1) for _ in range(3)]
                nv = math.sqrt(sum(c * c for c in v))
                p = [round(q[k] + l * v[k] / nv, 4) for k in range(3)]
            else:
                p = [round(rng.uniform(0, 10 * L), 4) for _ in range(3)]
            ok = True
            for j, q in enumerate(pts):
                d = [(p[k] - q[k]) - 10 * L * round((p[k] - q[k]) / (10 * L)) for k in range(3)]
                dist = math.sqrt(sum(c * c for c in d))
                if dist < 10 * mn + 0.3 and mols[i] != mols[j]:
                    ok = False
                    break
            if ok:
                pts.append(p)
        if len(pts) < n:
            return None
        s["pos"].append(pts)
    return s


def cross(a, b):
    return [a[1] * b[2] - a[2] * b[1], a[2] * b[0] - a[0] * b[2], a[0] * b[1] - a[1] * b[0]]


def dot(a, b):
    return a[0] * b[0] + a[1] * b[1] + a[2] * b[2]


def dihedral_value_grad(P4, L):
    """signed dihedral angle of four points and its gradient with respect to each of them (orthorhombic minimum image):
    phi = sign(v1.n2) acos(n1.n2 / |n1||n2|), n1 = v1 x v2, n2 = v2 x v3; d/dx acos(c) = -1/sin"""
    def conn(a, b):
        d = [b[k] - a[k] for k in range(3)]
        return [c - L * round(c / L) for c in d]
    v1, v2, v3 = conn(P4[0], P4[1]), conn(P4[1], P4[2]), conn(P4[2], P4[3])
    n1, n2 = cross(v1, v2), cross(v2, v3)
    m1, m2 = math.sqrt(dot(n1, n1)), math.sqrt(dot(n2, n2))
    c = dot(n1, n2)
    cc = max(-1.0, min(1.0, c / (m1 * m2)))
    sign = -1.0 if dot(v1, n2) < 0 else 1.0
    phi = sign * math.acos(cc)
    sn = math.sqrt(1 - cc * cc)
    f = sign * (-1.0 / sn)
    add = lambda a, b: [a[k] + b[k] for k in range(3)]
    grads = []
    for bead in range(4):
        g = []
        for ax in range(3):
            e = [1.0 if k == ax else 0.0 for k in range(3)]
            if bead == 0:
                comp = dot(n2, cross(v2, e)) / (m1 * m2) - c * dot(n1, cross(v2, e)) / (m2 * m1 ** 3)
            elif bead == 1:
                comp = (dot(n1, cross(v3, e)) + dot(n2, add(cross(e, v1), cross(e, v2)))) / (m1 * m2) - c * (
                    dot(n1, add(cross(e, v1), cross(e, v2))) / (m2 * m1 ** 3) + dot(n2, cross(v3, e)) / (m1 * m2 ** 3))
            elif bead == 2:
                comp = (dot(n1, add(cross(e, v2), cross(e, v3))) + dot(n2, cross(v1, e))) / (m1 * m2) - c * (
                    dot(n1, cross(v1, e)) / (m2 * m1 ** 3) + dot(n2, add(cross(e, v2), cross(e, v3))) / (m1 * m2 ** 3))
            else:
                comp = dot(n1, cross(v2, e)) / (m1 * m2) - c * dot(n2, cross(v2, e)) / (m1 * m2 ** 3)
            g.append(f * comp)
        grads.append(g)
    return phi, grads


def forces(s, f):
    """reference forces (kJ/mol/nm) on the positions as csg reads them (nm = Angstrom value * 0.1)"""
    L = s["L"]
    pos = [[c * ANG2NM for c in p] for p in s["pos"][f]]
    n = len(pos)
    F = [[0.0] * 3 for _ in range(n)]
    bonded_pairs = set(s["bonds"]) | set((a[0], a[2]) for a in s["angles"]) | set((d[0], d[3]) for d in s["dihedrals"])
    for it in s["inter"]:
        if it["dihedral"]:
            for quad in s["dihedrals"]:
                P4 = [pos[q] for q in quad]
                phi, grads = dihedral_value_grad(P4, L)
                S = spline_eval(it["xs"], it["fs"], it["f2"], phi)
                for b, q in enumerate(quad):
                    for k in range(3):
                        F[q][k] -= S * grads[b][k]
        elif it["angle"]:
            for (i, j, k3) in s["angles"]:
                u = [pos[i][k] - pos[j][k] for k in range(3)]
                w = [pos[k3][k] - pos[j][k] for k in range(3)]
                u = [c - L * round(c / L) for c in u]
                w = [c - L * round(c / L) for c in w]
                n1 = math.sqrt(sum(c * c for c in u))
                n2 = math.sqrt(sum(c * c for c in w))
                c = sum(u[k] * w[k] for k in range(3)) / (n1 * n2)
                sn = math.sqrt(1 - c * c)
                th = math.acos(c)
                S = spline_eval(it["xs"], it["fs"], it["f2"], th)
                gi = [-(w[k] / (n1 * n2) - c * u[k] / (n1 * n1)) / sn for k in range(3)]
                gk = [-(u[k] / (n1 * n2) - c * w[k] / (n2 * n2)) / sn for k in range(3)]
                for k in range(3):
                    F[i][k] -= S * gi[k]
                    F[k3][k] -= S * gk[k]
                    F[j][k] += S * (gi[k] + gk[k])
        elif it["bonded"]:
            for (i, j) in s["bonds"]:
                d = [pos[j][k] - pos[i][k] for k in range(3)]
                d = [c - L * round(c / L) for c in d]
                r = math.sqrt(sum(c * c for c in d))
                S = spline_eval(it["xs"], it["fs"], it["f2"], r)
                for k in range(3):
                    F[i][k] += S * d[k] / r
                    F[j][k] -= S * d[k] / r
        else:
            for i in range(n):
                for j in range(i + 1, n):
                    ti, tj = s["types"][i], s["types"][j]
                    if not ((ti == it["t1"] and tj == it["t2"]) or (ti == it["t2"] and tj == it["t1"])):
                        continue
                    if (i, j) in bonded_pairs:
                        continue
                    d = [pos[j][k] - pos[i][k] for k in range(3)]
                    d = [c - L * round(c / L) for c in d]
                    r = math.sqrt(sum(c * c for c in d))
                    if r >= it["max"]:
                        continue
                    S = spline_eval(it["xs"], it["fs"], it["f2"], r)
                    for k in range(3):
                        F[i][k] += S * d[k] / r
                        F[j][k] -= S * d[k] / r
    return F


def write_inputs(s, d):
    n = len(s["types"])
    with open(os.path.join(d, "topol.xml"), "w") as f:
        f.write("<topology>\n <molecules>\n")
        if s["nA"]:
            f.write('  <molecule name="MA" nmols="%d" nbeads="1"><bead name="a" type="A" mass="1.0" q="0"/></molecule>\n' % s["nA"])
        if s["nB"]:
            f.write('  <molecule name="MB" nmols="%d" nbeads="1"><bead name="b" type="B" mass="1.0" q="0"/></molecule>\n' % s["nB"])
        if s["nD"]:
            f.write('  <molecule name="MD" nmols="%d" nbeads="2"><bead name="a" type="A" mass="1.0" q="0"/><bead name="b" type="B" mass="1.0" q="0"/></molecule>\n' % s["nD"])
        if s["nT"]:
            f.write('  <molecule name="MT" nmols="%d" nbeads="3"><bead name="a1" type="A" mass="1.0" q="0"/><bead name="b" type="B" mass="1.0" q="0"/><bead name="a2" type="A" mass="1.0" q="0"/></molecule>\n' % s["nT"])
        if s["nQ"]:
            f.write('  <molecule name="MQ" nmols="%d" nbeads="4"><bead name="a1" type="A" mass="1.0" q="0"/><bead name="b1" type="B" mass="1.0" q="0"/><bead name="b2" type="B" mass="1.0" q="0"/><bead name="a2" type="A" mass="1.0" q="0"/></molecule>\n' % s["nQ"])
        f.write(" </molecules>\n</topology>\n")
    maps = []
    for (mname, beads, bonded) in (("MA", [("a", "A")], False), ("MB", [("b", "B")], False), ("MD", [("a", "A"), ("b", "B")], True),
                                   ("MT", [("a1", "A"), ("b", "B"), ("a2", "A")], True),
                                   ("MQ", [("a1", "A"), ("b1", "B"), ("b2", "B"), ("a2", "A")], True)):
        if (mname == "MA" and not s["nA"]) or (mname == "MB" and not s["nB"]) or (mname == "MD" and not s["nD"]) or (mname == "MT" and not s["nT"]) or (mname == "MQ" and not s["nQ"]):
            continue
        fn = mname.lower() + ".xml"
        maps.append(fn)
        with open(os.path.join(d, fn), "w") as f:
            f.write("<cg_molecule>\n <name>%s</name>\n <ident>%s</ident>\n <topology>\n  <cg_beads>\n" % (mname, mname))
            for (bn, bt) in beads:
                f.write("   <cg_bead><name>%s</name><type>%s</type><mapping>U</mapping><beads>1:%s:%s</beads></cg_bead>\n" % (bn.upper(), bt, mname, bn))
            f.write("  </cg_beads>\n")
            if bonded and mname == "MD":
                f.write("  <cg_bonded><bond><name>bond</name><beads>A B</beads></bond></cg_bonded>\n")
            if bonded and mname == "MQ":
                f.write("  <cg_bonded><bond><name>bond</name><beads>A1 B1\nB1 B2\nB2 A2</beads></bond><angle><name>angle</name><beads>A1 B1 B2\nB1 B2 A2</beads></angle>"
                        "<dihedral><name>dihedral</name><beads>A1 B1 B2 A2</beads></dihedral></cg_bonded>\n")
            if bonded and mname == "MT":
                f.write("  <cg_bonded><bond><name>bond</name><beads>A1 B\nB A2</beads></bond><angle><name>angle</name><beads>A1 B A2</beads></angle></cg_bonded>\n")
            f.write(" </topology>\n <maps><map><name>U</name><weights>1</weights></map></maps>\n</cg_molecule>\n")
    with open(os.path.join(d, "opt.xml"), "w") as f:
        f.write("<cg>\n <fmatch><frames_per_block>%d</frames_per_block><constrainedLS>%s</constrainedLS></fmatch>\n" % (s["fpb"], "true" if s["cls"] else "false"))
        for it in s["inter"]:
            body = "<name>%s</name>%s<fmatch><min>%r</min><max>%r</max><step>%r</step><out_step>%r</out_step></fmatch>" % (
                it["name"], "" if it["bonded"] else "<type1>%s</type1><type2>%s</type2>" % (it["t1"], it["t2"]), it["min"], it["max"], it["step"], it["step"])
            f.write(" <%s>%s</%s>\n" % ("bonded" if it["bonded"] else "non-bonded", body, "bonded" if it["bonded"] else "non-bonded"))
        f.write("</cg>\n")
    refF = []
    with open(os.path.join(d, "traj.dump"), "w") as f:
        for fr in range(s["frames"]):
            F = forces(s, fr)
            rows = []
            f.write("ITEM: TIMESTEP\n%d\nITEM: NUMBER OF ATOMS\n%d\nITEM: BOX BOUNDS pp pp pp\n0 %r\n0 %r\n0 %r\nITEM: ATOMS id type x y z fx fy fz\n" % (fr, n, 10 * s["L"], 10 * s["L"], 10 * s["L"]))
            for i in range(n):
                p = s["pos"][fr][i]
                # forces in kcal/mol/Angstrom with 12 significant digits; what the reader reconstructs is recorded
                ff = ["%.12g" % (F[i][k] / KCAL2KJ * ANG2NM) for k in range(3)]
                f.write("%d %d %.4f %.4f %.4f %s %s %s\n" % (i + 1, 0 if s["types"][i] == "A" else 1, p[0], p[1], p[2], ff[0], ff[1], ff[2]))
                rows.append([float(x) * KCAL2KJ / ANG2NM for x in ff])
            refF.append(rows)
    return maps, refF


def run_one(exe, s):
    d = tempfile.mkdtemp(prefix="c06f_", dir=os.environ.get("VERIF_TMP", os.path.join(VERIF, ".cache", "tmp")))
    try:
        maps, refF = write_inputs(s, d)
        cmd = [exe, "--top", "topol.xml", "--trj", "traj.dump", "--cg", ";".join(maps), "--options", "opt.xml"]
        try:
            r = subprocess.run(cmd, cwd=d, stdout=subprocess.PIPE, stderr=subprocess.PIPE, timeout=900)
            status = "ok" if r.returncode == 0 else ((r.stdout.decode(errors="replace")[-150:] + r.stderr.decode(errors="replace")[-150:]).strip()[-120:].encode().hex() or "-")
        except subprocess.TimeoutExpired:
            status = "timeout".encode().hex()
        n = len(s["types"])
        out = ["C06 fmatch %s %d %d %d %d %s" % (s["sid"], n, s["frames"], s["fpb"], 1 if s["cls"] else 0, me(s["L"]))]
        out.append(" ".join("%d %d" % (0 if t == "A" else 1, m) for t, m in zip(s["types"], s["mols"])))
        out.append("%d %s" % (len(s["bonds"]), " ".join("%d %d" % b for b in s["bonds"])))
        out.append("%d %s" % (len(s["angles"]), " ".join("%d %d %d" % a for a in s["angles"])))
        out.append("%d %s" % (len(s["dihedrals"]), " ".join("%d %d %d %d" % d4 for d4 in s["dihedrals"])))
        out.append(str(len(s["inter"])))
        for it in s["inter"]:
            out.append("%d %d %d %s %s %s %d %s" % (3 if it["dihedral"] else 2 if it["angle"] else 1 if it["bonded"] else 0, 0 if it["t1"] == "A" else 1, 0 if it["t2"] == "A" else 1,
                                                   me(it["min"]), me(it["max"]), me(it["step"]), len(it["xs"]), " ".join(me(v) for v in it["fs"])))
        for fr in range(s["frames"]):
            for i in range(n):
                out.append(" ".join(me(float("%.4f" % c) * ANG2NM) for c in s["pos"][fr][i]) + " " + " ".join(me(v) for v in refF[fr][i]))
            # witnesses: the angle values of this frame (the model checks their cosines against the geometry)
            P = [[float("%.4f" % c) * ANG2NM for c in q] for q in s["pos"][fr]]
            for (i, j, k3) in s["angles"]:
                u = [P[i][k] - P[j][k] for k in range(3)]
                w = [P[k3][k] - P[j][k] for k in range(3)]
                u = [c - s["L"] * round(c / s["L"]) for c in u]
                w = [c - s["L"] * round(c / s["L"]) for c in w]
                c = sum(u[k] * w[k] for k in range(3)) / math.sqrt(sum(x * x for x in u) * sum(x * x for x in w))
                out.append(me(math.acos(max(-1.0, min(1.0, c)))))
            for quad in s["dihedrals"]:
                out.append(me(dihedral_value_grad([P[q] for q in quad], s["L"])[0]))
        tabs = []
        for k, it in enumerate(s["inter"]):
            p = os.path.join(d, it["name"] + ".force")
            if os.path.exists(p):
                rows = [l.split() for l in open(p) if l.strip() and not l.startswith("#")]
                if any(float(t[1]) != float(t[1]) or abs(float(t[1])) == float("inf") for t in rows):
                    status = "non-finite-table".encode().hex()     # ill-posed (under-sampled) problems produce these; the model decides
                    continue
                tabs.append("%d %d %s" % (k, len(rows), " ".join(me(float(t[0])) + " " + me(float(t[1])) for t in rows)))
        out.append("OUT %s %d %s" % (status, len(tabs), " ".join(tabs)))
        return " ".join(out)
    finally:
        shutil.rmtree(d, ignore_errors=True)


def mk(seed, i):
    k = 0
    while True:
        s = gen(random.Random(seed * 1000003 + i + 7919 * k))
        if s is not None:
            s["sid"] = "%d:%d" % (seed, i)
            return s
        k += 1


def main():
    exe, mode = sys.argv[1], sys.argv[2]
    n = int(sys.argv[3]) if len(sys.argv) > 3 else 20
    seed = int(os.environ.get("VERIF_SEED", "1"))
    os.makedirs(os.environ.get("VERIF_TMP", os.path.join(VERIF, ".cache", "tmp")), exist_ok=True)
    if mode == "rand":
        scen = [mk(seed, i) for i in range(n)]
    else:
        scen = []
        for line in sys.stdin:
            for t in re.findall(r"C06 fmatch (\d+:\d+)", line):
                a, b = t.split(":")
                scen.append(mk(int(a), int(b)))
    with ThreadPoolExecutor(int(os.environ.get("VERIF_JOBS", "12"))) as ex:
        for line in ex.map(lambda s: run_one(exe, s), scen):
            sys.stdout.write(line + "\n")


if __name__ == "__main__":
    main()
