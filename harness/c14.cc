// C14 correspondence harness: the real huffmanTree<GLink> / GNode lookup on generated rate lists (tree dumped, lookups at
// every threshold, +-1 ulp, interval midpoints, 0 and 1) and the real Rate_Engine on generated pairs.
#include "common.h"
#include <Eigen/Dense>
#include <algorithm>
#include <iostream>
#include <map>
#include <queue>
#include <sstream>
#include <stdexcept>
#include <vector>
#include <boost/format.hpp>
#include <votca/tools/constants.h>
#include <votca/tools/types.h>
// the node array and Marcusrate are private; the harness (not the repository) opens them up for inspection
#define private public
#include <votca/xtp/gnode.h>
#include <votca/xtp/huffmantree.h>
#include <votca/xtp/rate_engine.h>
#undef private
#include <votca/xtp/qmpair.h>
#include <votca/xtp/segment.h>

using namespace votca;
using namespace votca::xtp;

static void tree_case(const std::vector<double> &rates, bool exact, int decay = -1, int rebuild = -1) {
  // through GNode, as the KMC code does
  Segment seg("s", 0);
  GNode node(seg, QMStateType::Electron, true);
  GNode other(seg, QMStateType::Electron, true);
  // one of the events may be a decay event (kmclifetime mode): it takes part in the tree and in the escape rate like every other
  // rebuild = k: the tree is first built from the first k events, then the remaining events are added and escape rate and tree are
  // built again (what kmclifetime does when the decay events are read after the graph was loaded); the property is about the
  // rates leaving the site at the time of the lookup
  for (size_t i = 0; i < rates.size(); i++) {
    if ((int)i == rebuild && i > 0) { node.InitEscapeRate(); node.MakeHuffTree(); }
    if ((int)i == decay) node.AddDecayEvent(rates[i]); else node.AddEvent(&other, Eigen::Vector3d::Zero(), rates[i]);
  }
  node.InitEscapeRate();
  node.MakeHuffTree();
  auto &ht = node.hTree;
  const std::vector<GLink> &ev = node.events_;
  std::ostringstream o;
  o << "C14 tree " << (exact ? 1 : 0);
  if (decay >= 0) o << "d" << decay;
  if (rebuild > 0) o << "r" << rebuild;
  o << " " << rates.size();
  for (double r : rates) o << " " << dexact(r);
  o << " " << ht.htree.size();
  std::vector<double> pts = {0.0, 1.0};
  for (auto &n : ht.htree) {
    if (n.isOnLastLevel) o << " L " << (n.leftLeaf - &ev[0]) << " " << (n.rightLeaf - &ev[0]);
    else o << " I " << (n.leftChild - &ht.htree[0]) << " " << (n.rightChild - &ht.htree[0]);
    o << " " << dexact(n.probability);
    if (n.probability >= 0.0 && n.probability <= 1.0) pts.push_back(n.probability);
  }
  std::sort(pts.begin(), pts.end());
  pts.erase(std::unique(pts.begin(), pts.end()), pts.end());
  std::vector<double> qs;
  for (size_t i = 0; i < pts.size(); i++) {
    qs.push_back(pts[i]);
    if (pts[i] > 0.0) qs.push_back(std::nextafter(pts[i], 0.0));
    if (pts[i] < 1.0) qs.push_back(std::nextafter(pts[i], 1.0));
    if (i + 1 < pts.size()) qs.push_back(pts[i] + (pts[i + 1] - pts[i]) / 2);
  }
  o << " " << qs.size();
  for (double p : qs) {
    GLink *g = node.findHoppingDestination(p);
    long idx = g ? (long)(g - &ev[0]) : -1;
    o << " " << dexact(p) << " " << idx;
  }
  o << " " << dexact(node.getEscapeRate());
  printf("%s\n", o.str().c_str());
}

static void marcus_run(int sk, double e1, double e2, double unx1, double uxn1, double unx2, double uxn2, double lo,
                       const Eigen::Vector3d &R, const Eigen::Vector3d &field, double kT, double j2, bool equal_reorg) {
  Rate_Engine eng(kT, field);
  QMStateType st = sk == 0 ? QMStateType::Electron : sk == 1 ? QMStateType::Hole : sk == 2 ? QMStateType::Singlet : QMStateType::Triplet;
  Segment s1("a", 0), s2("b", 1);
  s1.setEMpoles(st, e1); s2.setEMpoles(st, e2);
  s1.setU_xX_nN(0.0, st); s2.setU_xX_nN(0.0, st);
  s1.setU_nX_nN(unx1, st); s1.setU_xN_xX(uxn1, st);
  s2.setU_nX_nN(unx2, st); s2.setU_xN_xX(uxn2, st);
  QMPair pair(0, &s1, &s2, R);
  pair.setLambdaO(lo, st);
  pair.setJeff2(j2, st);
  Rate_Engine::PairRates pr, pr2;
  double direct = 0;
  try {
    pr = eng.Rate(pair, st);
    pair.setJeff2(2 * j2, st);
    pr2 = eng.Rate(pair, st);
    direct = eng.Marcusrate(j2, pair.getdE12(st), pair.getReorg12(st) + lo);
  } catch (std::exception &) {
    pr.rate12 = pr.rate21 = pr2.rate12 = pr2.rate21 = direct = std::nan("");
  }
  printf("C14 rates %s %s %s %s %s %s %s %s %s %s %s %s %s %s %s %s %s %s %s %s %s %s %s\n", sk == 0 ? "-1" : sk == 1 ? "1" : sk == 2 ? "0s" : "0t",
         dexact(tools::conv::Pi).c_str(), dexact(tools::conv::hbar).c_str(), dexact(tools::conv::ev2hrt).c_str(),
         dexact(s1.getSiteEnergy(st)).c_str(), dexact(s2.getSiteEnergy(st)).c_str(), dexact(pair.getReorg12(st)).c_str(), dexact(pair.getReorg21(st)).c_str(), dexact(lo).c_str(),
         dexact(R.x()).c_str(), dexact(R.y()).c_str(), dexact(R.z()).c_str(), dexact(field.x()).c_str(), dexact(field.y()).c_str(),
         dexact(field.z()).c_str(), dexact(kT).c_str(), dexact(j2).c_str(), dexact(pr.rate12).c_str(), dexact(pr.rate21).c_str(),
         dexact(pr2.rate12).c_str(), dexact(pr2.rate21).c_str(), dexact(direct).c_str(), equal_reorg ? "1 0" : "0 0");
}

static void marcus_case(Rng &r, bool equal_reorg) {
  double kT = 0.0005 + r.unit() * 0.003;                 // hartree (158 K .. 1100 K)
  Eigen::Vector3d field((r.unit() - 0.5) * 2e-4, (r.unit() - 0.5) * 2e-4, (r.unit() - 0.5) * 2e-4);
  if (r.coin(1, 5)) field.setZero();
  int sk = (int)r.below(4);                              // electron, hole, singlet, triplet
  double e1 = (r.unit() - 0.5) * 0.02, e2 = (r.unit() - 0.5) * 0.02;
  double unx1 = 0.002 + r.unit() * 0.01, uxn1 = 0.002 + r.unit() * 0.01;
  double unx2 = equal_reorg ? unx1 : 0.002 + r.unit() * 0.01, uxn2 = equal_reorg ? uxn1 : 0.002 + r.unit() * 0.01;
  Eigen::Vector3d R((r.unit() - 0.5) * 20, (r.unit() - 0.5) * 20, (r.unit() - 0.5) * 20);
  // outer-sphere reorganisation energy of the pair: one number, common to both directions
  double lo = r.coin(1, 3) ? 0.0 : r.unit() * 0.0015;
  double j2 = std::ldexp(1.0 + r.unit(), -(int)r.range(10, 40));
  marcus_run(sk, e1, e2, unx1, uxn1, unx2, uxn2, lo, R, field, kT, j2, equal_reorg);
}

int main(int argc, char **argv) {
  std::string mode = argc > 1 ? argv[1] : "rand";
  long N = argc > 2 ? atol(argv[2]) : 500;
  Rng r(env_seed() * 7919 + 14);
  if (mode == "replay") {
    std::string line;
    while (std::getline(std::cin, line)) {
      if (line.empty() || line[0] == '#') continue;
      std::vector<std::string> t = split_ws(line);
      if (t.size() >= 47 && t[0] == "C14" && t[1] == "rates") {
        // rates: the inputs of the line are fed back (inner12 = U_nX_nN(1) + U_xN_xX(2): the second summand is set to zero)
        auto d = [&](size_t k) { return dparse(t[3 + 2 * k], t[4 + 2 * k]); };
        int sk = t[2] == "-1" ? 0 : t[2] == "1" ? 1 : t[2] == "0s" ? 2 : 3;
        marcus_run(sk, d(3), d(4), d(5), d(6), 0.0, 0.0, d(7), Eigen::Vector3d(d(8), d(9), d(10)), Eigen::Vector3d(d(11), d(12), d(13)), d(14), d(15), t[45] == "1");
        continue;
      }
      if (t.size() < 4 || t[0] != "C14" || t[1] != "tree") continue;
      size_t n = (size_t)atol(t[3].c_str());
      std::vector<double> rates;
      for (size_t i = 0; i < n && 5 + 2 * i < t.size(); i++) rates.push_back(dparse(t[4 + 2 * i], t[5 + 2 * i]));
      size_t rp = t[2].find('r');
      tree_case(rates, t[2][0] == '1', t[2].size() > 2 && t[2][1] == 'd' ? atoi(t[2].c_str() + 2) : -1, rp != std::string::npos ? atoi(t[2].c_str() + rp + 1) : -1);
    }
    return 0;
  }
  if (mode == "exh") {
    // all multisets of 1..5 rates from {1,1,2,3,4,8}/16-ish with power-of-two total are not needed: exact = dyadic rates, any total
    for (int n = 1; n <= 6; n++) {
      std::vector<int> v(n, 1);
      while (true) {
        std::vector<double> rates;
        for (int x : v) rates.push_back((double)x);
        double s = 0; for (double x : rates) s += x;
        // exact only if the total is a power of two (then value/sum is exact)
        int si = (int)s; bool p2 = (si & (si - 1)) == 0;
        tree_case(rates, p2);
        int i = n - 1;
        while (i >= 0 && v[i] == 4) { v[i] = 1; i--; }
        if (i < 0) break;
        v[i]++;
      }
    }
    return 0;
  }
  for (long i = 0; i < N; i++) {
    int k = (int)r.below(10);
    if (k < 3) {
      // exact: integers/2^j whose total is a power of two
      int n = 1 + (int)r.below(r.coin(1, 4) ? 100 : 12);
      std::vector<long> a(n);
      long tot = 0;
      for (int j = 0; j < n; j++) { a[j] = 1 + (long)r.below(r.coin() ? 4 : 1000); tot += a[j]; }
      long p2 = 1; while (p2 < tot) p2 *= 2;
      a[r.below(n)] += p2 - tot;
      double sc = std::ldexp(1.0, (int)r.range(-30, 30));
      std::vector<double> rates;
      for (long x : a) rates.push_back((double)x * sc);
      int dec = r.coin(1, 4) ? (int)r.below(rates.size()) : -1;
      tree_case(rates, true, dec, rates.size() > 1 && r.coin(1, 3) ? 1 + (int)r.below(rates.size() - 1) : -1);
    } else if (k < 6) {
      // 12 decades, equal rates, odd/even counts
      int n = 1 + (int)r.below(r.coin(1, 4) ? 100 : 9);
      std::vector<double> rates;
      double base = std::pow(10.0, (double)r.range(0, 14));
      for (int j = 0; j < n; j++) {
        int kind = (int)r.below(4);
        if (kind == 0) rates.push_back(base);
        else if (kind == 1) rates.push_back(base * std::pow(10.0, -(double)r.below(13)));
        else rates.push_back(base * (0.001 + r.unit()));
      }
      int dec = r.coin(1, 4) ? (int)r.below(rates.size()) : -1;
      tree_case(rates, false, dec, rates.size() > 1 && r.coin(1, 3) ? 1 + (int)r.below(rates.size() - 1) : -1);
    } else marcus_case(r, r.coin(2, 3));
  }
  return 0;
}
