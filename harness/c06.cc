// C06 correspondence harness (library part): linalg_constrained_qrsolve on generated well-posed problems; the multipliers of
// the KKT system are computed here (untrusted certificate) and checked exactly by the driver.
#include "common.h"
#include <Eigen/Dense>
#include <sstream>
#include <votca/tools/linalg.h>
using namespace votca;

static void emit_mat(std::ostringstream &o, const Eigen::MatrixXd &M) {
  o << " " << M.rows() << " " << M.cols();
  for (Index i = 0; i < M.rows(); i++) for (Index j = 0; j < M.cols(); j++) o << " " << dexact(M(i, j));
}
static void emit_vec(std::ostringstream &o, const Eigen::VectorXd &v) {
  o << " " << v.size();
  for (Index i = 0; i < v.size(); i++) o << " " << dexact(v(i));
}

static double val(Rng &r, int kind) {
  if (kind == 0) return (double)r.range(-8, 8) / 4.0;       // small dyadics
  return (r.unit() - 0.5) * 4;
}

int main(int argc, char **argv) {
  std::string mode = argc > 1 ? argv[1] : "rand";
  long N = argc > 2 ? atol(argv[2]) : 100;
  Rng r(env_seed() * 7919 + 6);
  if (mode == "replay") {
    std::string line;
    while (std::getline(std::cin, line)) if (line.rfind("C06", 0) == 0) printf("%s\n", line.c_str());
    return 0;
  }
  for (long it = 0; it < N; it++) {
    int n = 2 + (int)r.below(7);            // unknowns
    int k = (int)r.below(n);                // constraints, 0..n-1
    int m = (n - k) + (int)r.below(k + 8);  // rows: at least as many as degrees of freedom (n - k), also fewer than unknowns
    int kind = (int)r.below(2);
    Eigen::MatrixXd A(m, n), B(k, n);
    Eigen::VectorXd b(m);
    for (int i = 0; i < m; i++) { for (int j = 0; j < n; j++) A(i, j) = val(r, kind); b(i) = val(r, kind); }
    for (int i = 0; i < k; i++) for (int j = 0; j < n; j++) B(i, j) = val(r, kind);
    // keep the problem well posed: full row rank constraints, no zero column, full column rank on the null space
    bool zerocol = false;
    for (int j = 0; j < n; j++) if (A.col(j).norm() < 1e-6) zerocol = true;
    if (zerocol) { it--; continue; }
    if (k > 0) { Eigen::JacobiSVD<Eigen::MatrixXd> svd(B); if (svd.singularValues()(k - 1) < 1e-2) { it--; continue; } }
    {
      Eigen::MatrixXd S(m + k, n); S << A, B;
      Eigen::JacobiSVD<Eigen::MatrixXd> svd(S);
      if (svd.singularValues()(n - 1) < 1e-2) { it--; continue; }
    }
    Eigen::VectorXd x;
    std::ostringstream o;
    try {
      x = tools::linalg_constrained_qrsolve(A, b, B);
    } catch (std::exception &e) {
      o << "C06 kkt-error " << hexs(e.what());
      printf("%s\n", o.str().c_str());
      continue;
    }
    Eigen::VectorXd g = A.transpose() * (A * x - b);
    Eigen::VectorXd lam = Eigen::VectorXd::Zero(k);
    if (k > 0) lam = (B * B.transpose()).ldlt().solve(B * g);
    o << "C06 kkt";
    emit_mat(o, A); emit_vec(o, b); emit_mat(o, B); emit_vec(o, x); emit_vec(o, lam);
    printf("%s\n", o.str().c_str());
  }
  return 0;
}
