// C01 correspondence harness: the real mapping pipeline (CGEngine::LoadMoleculeType -> CreateCGTopology -> TopologyMap::Apply)
// on generated atomistic molecules, boxes and mapping definitions; each case is also run with one non-first parent moved by
// a lattice vector and with all atoms translated rigidly.
#include "common.h"
#include <fstream>
#include <sstream>
#include <unistd.h>
#include <votca/csg/cgengine.h>
#include <votca/csg/topology.h>
#include <votca/csg/topologymap.h>
using namespace votca;
using namespace votca::csg;
typedef Eigen::Vector3d V;
typedef Eigen::Matrix3d M;

struct Par { bool hp, hv, hf; double m; V p, v, f; };
struct Case {
  int sym; char type; M box; std::vector<Par> par; std::vector<double> w; bool hasd; std::vector<double> d;
  int shiftIdx; int n[3]; V t;
};
struct Res { bool ok; std::string err; double mass; bool hp, hv, hf; V p, v, f; };

static std::string v3(const V &v) { return dexact(v.x()) + " " + dexact(v.y()) + " " + dexact(v.z()); }
static std::string g17(double x) { char b[64]; snprintf(b, sizeof b, "%.17g", x); return b; }
static std::string tmpdir;

static Res run(const Case &c, const std::vector<V> &pos) {
  Res r; r.ok = false; r.mass = 0; r.hp = r.hv = r.hf = false; r.p = r.v = r.f = V::Zero();
  std::string file = tmpdir + "/map.xml";
  {
    std::ofstream o(file);
    o << "<cg_molecule><name>cgmol</name><ident>mol</ident><topology><cg_beads><cg_bead><name>B1</name><type>B</type>"
      << "<symmetry>" << c.sym << "</symmetry><mapping>M</mapping><beads>";
    for (size_t i = 0; i < c.par.size(); i++) o << " 1:RES:A" << i;
    o << " </beads></cg_bead></cg_beads></topology><maps><map><name>M</name><weights>";
    for (double w : c.w) o << " " << g17(w);
    o << " </weights>";
    if (c.hasd) { o << "<d>"; for (double d : c.d) o << " " << g17(d); o << " </d>"; }
    o << "</map></maps></cg_molecule>\n";
  }
  try {
    Topology top;
    BoundaryCondition::eBoxtype bt = c.type == 'A' ? BoundaryCondition::typeAuto : c.type == 'O' ? BoundaryCondition::typeOrthorhombic
                                     : c.type == 'T' ? BoundaryCondition::typeTriclinic : BoundaryCondition::typeOpen;
    top.setBox(c.box, bt);
    top.CreateResidue("RES");
    Molecule *mol = top.CreateMolecule("mol");
    top.RegisterBeadType("X");
    for (size_t i = 0; i < c.par.size(); i++) {
      Bead *b = top.CreateBead(Bead::spherical, "A" + std::to_string(i), "X", 0, c.par[i].m, 0.0);
      if (c.par[i].hp) b->setPos(pos[i]);
      if (c.par[i].hv) b->setVel(c.par[i].v);
      if (c.par[i].hf) b->setF(c.par[i].f);
      mol->AddBead(b, "1:RES:A" + std::to_string(i));
    }
    CGEngine eng;
    eng.LoadMoleculeType(file);
    Topology cg;
    std::unique_ptr<TopologyMap> map = eng.CreateCGTopology(top, cg);
    // keep the library's diagnostic print out of the protocol stream
    std::streambuf *old = std::cout.rdbuf();
    std::ostringstream sink;
    std::cout.rdbuf(sink.rdbuf());
    try { map->Apply(); } catch (...) { std::cout.rdbuf(old); throw; }
    std::cout.rdbuf(old);
    if (cg.BeadCount() != 1) { r.err = "other"; return r; }
    Bead *b = cg.getBead(0);
    r.ok = true; r.mass = b->getMass();
    r.hp = b->HasPos(); r.hv = b->HasVel(); r.hf = b->HasF();
    if (r.hp) r.p = b->getPos();
    if (r.hv) r.v = b->getVel();
    if (r.hf) r.f = b->getF();
  } catch (std::exception &e) {
    std::string w = e.what();
    r.err = w.find("bigger than half the box") != std::string::npos ? "halfbox" : w.find("d coefficient is nonzero") != std::string::npos ? "dweight"
            : w.find("do not match") != std::string::npos ? "count" : "other";
  }
  return r;
}

static std::string res_str(const Res &r) {
  if (!r.ok) return "ERR " + r.err;
  std::ostringstream o;
  o << "OK " << dexact(r.mass) << " " << r.hp << " " << v3(r.p) << " " << r.hv << " " << v3(r.v) << " " << r.hf << " " << v3(r.f);
  return o.str();
}

static void emit(const char *kind, const Case &c) {
  std::vector<V> pos, pos_s, pos_t;
  for (auto &p : c.par) { pos.push_back(p.p); pos_s.push_back(p.p); pos_t.push_back(p.p + c.t); }
  if (c.shiftIdx > 0 && c.shiftIdx < (int)pos.size())
    pos_s[c.shiftIdx] = pos[c.shiftIdx] + c.box.col(0) * (double)c.n[0] + c.box.col(1) * (double)c.n[1] + c.box.col(2) * (double)c.n[2];
  Res r = run(c, pos), rs = run(c, pos_s), rt = run(c, pos_t);
  std::ostringstream o;
  o << "C01 " << kind << " " << c.sym << " " << c.type << " " << v3(c.box.col(0)) << " " << v3(c.box.col(1)) << " " << v3(c.box.col(2)) << " " << c.par.size();
  for (auto &p : c.par) o << " " << p.hp << p.hv << p.hf << " " << dexact(p.m) << " " << v3(p.p) << " " << v3(p.v) << " " << v3(p.f);
  o << " " << c.w.size();
  for (double w : c.w) o << " " << dexact(w);
  o << " " << (c.hasd ? (int)c.d.size() : -1);
  if (c.hasd) for (double d : c.d) o << " " << dexact(d);
  o << " " << c.shiftIdx << " " << (c.shiftIdx > 0 && c.shiftIdx < (int)pos.size() ? v3(pos_s[c.shiftIdx]) : v3(V::Zero())) << " " << v3(c.t);
  o << " " << res_str(r) << " | " << res_str(rs) << " | " << res_str(rt);
  printf("%s\n", o.str().c_str());
}

static double dy(Rng &r, long lo, long hi, int den) { return (double)r.range(lo, hi) / (double)den; }

static Case gen(Rng &r, bool exact) {
  Case c;
  c.sym = r.coin(1, 4) ? 3 : 1;
  c.box = M::Zero();
  int bk = (int)r.below(6);
  c.type = 'A';
  double L[3] = {1, 1, 1};
  if (bk >= 1) {
    for (int i = 0; i < 3; i++) { L[i] = exact ? std::ldexp(1.0, (int)r.range(1, 3)) : 2 + r.unit() * 4; c.box(i, i) = L[i]; }
    if (bk >= 4) {
      c.box(0, 1) = exact ? L[0] * dy(r, -4, 4, 8) : (r.unit() - 0.5) * L[0];
      c.box(0, 2) = exact ? L[0] * dy(r, -4, 4, 8) : (r.unit() - 0.5) * L[0];
      c.box(1, 2) = exact ? L[1] * dy(r, -4, 4, 8) : (r.unit() - 0.5) * L[1];
    }
  }
  int K = c.sym == 3 ? 3 + (int)r.below(4) : 1 + (int)r.below(6);
  V centre(dy(r, -64, 64, 8), dy(r, -64, 64, 8), dy(r, -64, 64, 8));
  bool allpos = r.coin(5, 6), allvel = r.coin(), allf = r.coin(2, 3);
  int spread = (int)r.below(10);   // 0..6 compact, 7..8 wide (may exceed half the box), 9 far images
  for (int i = 0; i < K; i++) {
    Par p;
    p.hp = allpos || r.coin(); p.hv = allvel && r.coin(7, 8); p.hf = allf && r.coin(7, 8);
    if (c.sym == 3) p.hp = true;   // the orientation part of the ellipsoid map reads positions unconditionally
    p.m = exact ? (double)r.range(1, 64) / 4.0 : 1 + r.unit() * 30;
    double s = spread <= 6 ? 0.25 : 1.0;
    for (int k = 0; k < 3; k++) {
      double Lmin = std::min(L[0], std::min(L[1], L[2]));
      double off = exact ? dy(r, -8, 8, 16) * s * Lmin : (r.unit() - 0.5) * s * Lmin;
      p.p(k) = centre(k) + off;
      p.v(k) = exact ? dy(r, -32, 32, 8) : (r.unit() - 0.5) * 4;
      p.f(k) = exact ? dy(r, -32, 32, 8) : (r.unit() - 0.5) * 100;
    }
    // cut by faces / many images away: whole box vectors
    for (int k = 0; k < 3; k++)
      if (bk >= 1 && i > 0 && (spread == 9 || r.coin(1, 3))) p.p += c.box.col(k) * (double)r.range(spread == 9 ? -3000 : -2, spread == 9 ? 3000 : 2);
    c.par.push_back(p);
  }
  // weights: exact stream uses {0,1,2,4,8} with a power-of-two total
  c.hasd = r.coin(1, 3);
  if (exact) {
    long tot = 0;
    for (int i = 0; i < K; i++) { long w = (long[]){0, 1, 1, 2, 4, 8}[r.below(6)]; c.w.push_back((double)w); tot += w; }
    if (tot == 0) { c.w[0] = 1; tot = 1; }
    long p2 = 1; while (p2 < tot) p2 *= 2;
    // top up with power-of-two pieces on entries that stay powers of two: simply set entry 0
    if (p2 != tot) { c.w.push_back(0); c.w.pop_back(); c.w[0] += 0; }
    // make the total a power of two by brute force: retry until it is
    for (int tries = 0; tries < 200 && (tot & (tot - 1)); tries++) {
      tot = 0;
      for (int i = 0; i < K; i++) { long w = (long[]){0, 1, 1, 2, 4, 8}[r.below(6)]; c.w[i] = (double)w; tot += w; }
      if (tot == 0) { c.w[0] = 1; tot = 1; }
    }
    if (tot & (tot - 1)) { for (int i = 0; i < K; i++) c.w[i] = 0; c.w[0] = 1; }
    if (c.hasd) {
      long dt = 0;
      for (int i = 0; i < K; i++) { long d = c.w[i] == 0 ? 0 : r.range(-2, 6); c.d.push_back((double)d); dt += d; }
      for (int tries = 0; tries < 200 && (dt <= 0 || (dt & (dt - 1))); tries++) {
        dt = 0;
        for (int i = 0; i < K; i++) { long d = c.w[i] == 0 ? 0 : r.range(-2, 6); c.d[i] = (double)d; dt += d; }
      }
      if (dt <= 0 || (dt & (dt - 1))) { c.hasd = false; c.d.clear(); }
      else if (r.coin(1, 12)) { for (int i = 0; i < K; i++) if (c.w[i] == 0) { c.d[i] = 1; break; } }   // d without weight -> must be rejected
    }
  } else {
    for (int i = 0; i < K; i++) c.w.push_back(r.coin(1, 6) ? 0.0 : 0.5 + r.unit() * 15);
    if (c.w[0] == 0 && r.coin()) c.w[0] = 1;
    bool any = false; for (double w : c.w) any = any || w != 0; if (!any) c.w[0] = 1;
    if (c.hasd) for (int i = 0; i < K; i++) c.d.push_back(c.w[i] == 0 ? 0.0 : 0.1 + r.unit());
  }
  if (r.coin(1, 40)) c.w.push_back(1);   // count mismatch -> error
  c.shiftIdx = K > 1 ? 1 + (int)r.below(K - 1) : 0;
  for (int k = 0; k < 3; k++) c.n[k] = (int)r.range(-3, 3);
  c.t = exact ? V(dy(r, -40, 40, 8), dy(r, -40, 40, 8), dy(r, -40, 40, 8)) : V((r.unit() - 0.5) * 10, (r.unit() - 0.5) * 10, (r.unit() - 0.5) * 10);
  return c;
}

int main(int argc, char **argv) {
  std::string mode = argc > 1 ? argv[1] : "rand";
  long N = argc > 2 ? atol(argv[2]) : 300;
  Rng r(env_seed() * 7919 + 1);
  char tmpl[] = "/tmp/votca_verif_c01_XXXXXX";
  tmpdir = mkdtemp(tmpl);
  if (mode == "replay") {
    std::string line;
    while (std::getline(std::cin, line)) {
      if (line.empty() || line[0] == '#') continue;
      std::vector<std::string> t = split_ws(line);
      if (t.size() < 24 || t[0] != "C01") continue;
      Case c; size_t k = 2;
      c.sym = atoi(t[k++].c_str()); c.type = t[k++][0];
      auto rd = [&]() { double x = dparse(t[k], t[k + 1]); k += 2; return x; };
      for (int col = 0; col < 3; col++) for (int i = 0; i < 3; i++) c.box(i, col) = rd();
      int K = atoi(t[k++].c_str());
      for (int i = 0; i < K; i++) {
        Par p; std::string fl = t[k++];
        p.hp = fl[0] == '1'; p.hv = fl[1] == '1'; p.hf = fl[2] == '1'; p.m = rd();
        for (int j = 0; j < 3; j++) p.p(j) = rd();
        for (int j = 0; j < 3; j++) p.v(j) = rd();
        for (int j = 0; j < 3; j++) p.f(j) = rd();
        c.par.push_back(p);
      }
      int nw = atoi(t[k++].c_str());
      for (int i = 0; i < nw; i++) c.w.push_back(rd());
      int nd = atoi(t[k++].c_str());
      c.hasd = nd >= 0;
      for (int i = 0; i < nd; i++) c.d.push_back(rd());
      c.shiftIdx = atoi(t[k++].c_str());
      V ps; for (int j = 0; j < 3; j++) ps(j) = rd();
      for (int j = 0; j < 3; j++) c.t(j) = rd();
      // recover the lattice shift from the recorded shifted position is not needed: re-run with the recorded one
      c.n[0] = c.n[1] = c.n[2] = 0;
      if (c.shiftIdx > 0 && c.shiftIdx < K) {
        // solve n from ps - p = box * n (upper triangular)
        V dlt = ps - c.par[c.shiftIdx].p;
        if (c.box.determinant() != 0) { V n = c.box.inverse() * dlt; for (int j = 0; j < 3; j++) c.n[j] = (int)std::lround(n(j)); }
      }
      emit(t[1].c_str(), c);
    }
  } else {
    for (long i = 0; i < N; i++) {
      bool exact = r.coin(2, 3);
      emit(exact ? "map" : "gmap", gen(r, exact));
    }
  }
  std::string cmd = "rm -rf " + tmpdir;
  if (system(cmd.c_str())) {}
  return 0;
}
