#ifndef __VOTCA_CSG_VOTCA_CONFIG_H
#define __VOTCA_CSG_VOTCA_CONFIG_H
#define H5MD
#define PACKAGE_BUGREPORT "https://github.com/votca/votca/issues"
#endif
