static const std::string gitversion = "gitid: verif-harness";
