// Generated-equivalent of tools/include/votca/tools/votca_tools_config.h.in for the
// verification harness (same defines as the baseline build in /repo/_build).
#ifndef __VOTCA_TOOLS_VOTCA_CONFIG_H
#define __VOTCA_TOOLS_VOTCA_CONFIG_H
#define FFTW3_FOUND
#define TOOLS_VERSION "2024-dev"
#define TOOLS_BUGREPORT "https://github.com/votca/votca/issues"
#endif
