#ifndef VOTCA_XTP_CONFIG_H
#define VOTCA_XTP_CONFIG_H
#if defined(_OPENMP)
#include <omp.h>
#endif
#define VERSION "2024-dev"
#define PACKAGE_BUGREPORT "https://github.com/votca/votca/issues"
#endif
