#!/usr/bin/env python3
"""C06 harness (executable part): generated .gmc / .imc / .idx files -> the REAL csg_imc_solve -> every written table.
One protocol line per run: the matrix as the file gives it (row by row), b, the x column, r, the index ranges and the
written tables (exact doubles as mant/exp pairs)."""
import glob, math, os, random, re, shutil, subprocess, sys, tempfile
from concurrent.futures import ThreadPoolExecutor

os.environ.setdefault("OMP_NUM_THREADS", "1")     # many runs in parallel: one thread each (no oversubscription, no timeouts under load)
VERIF = os.path.dirname(os.path.dirname(os.path.abspath(__file__)))


def me(x):
    if x == 0:
        return "0 0"
    if x != x or x in (float("inf"), float("-inf")):
        return "nan 0"
    m, e = math.frexp(x)
    return "%d %d" % (int(m * (1 << 53)), e - 53)


def gen(rng):
    n = rng.randint(1, 8)
    kind = rng.choice(["sym", "nonsym", "nonsym", "lower", "int"])
    A = [[0.0] * n for _ in range(n)]
    for i in range(n):
        for j in range(n):
            v = round(rng.uniform(-3, 3), 3) if kind != "int" else float(rng.randint(-3, 3))
            A[i][j] = v
    if kind == "sym":
        for i in range(n):
            for j in range(i):
                A[i][j] = A[j][i]
    if kind == "lower":
        for i in range(n):
            for j in range(i + 1, n):
                A[i][j] = 0.0
    b = [round(rng.uniform(-2, 2), 4) for _ in range(n)]
    xs = [round(0.1 * (i + 1), 3) for i in range(n)]
    r = rng.choice([0.001, 0.01, 0.1, 1.0, 10.0, 0.5, 300.0])
    # index: 1..3 interactions.  two cases in three: consecutive blocks a:b covering 1..n; one in three: the rows of an interaction are NOT one
    # contiguous block (strided a:s:b, several blocks "2,4,6:8", interleaved with the other interactions) — valid RangeParser syntax
    def expr_of(idx):
        # print a sorted index list as a range expression: arithmetic progressions as a:s:b, otherwise runs
        if len(idx) >= 3 and len({idx[i + 1] - idx[i] for i in range(len(idx) - 1)}) == 1 and idx[1] - idx[0] > 1:
            return "%d:%d:%d" % (idx[0], idx[1] - idx[0], idx[-1])
        out, i = [], 0
        while i < len(idx):
            j = i
            while j + 1 < len(idx) and idx[j + 1] == idx[j] + 1:
                j += 1
            out.append("%d" % idx[i] if i == j else "%d:%d" % (idx[i], idx[j]))
            i = j + 1
        return ",".join(out)
    if n > 2 and rng.random() < 1 / 3:
        k = rng.randint(2, min(3, n))
        if rng.random() < 0.5:
            groups = [[i for i in range(1, n + 1) if (i - 1) % k == g] for g in range(k)]        # strided, interleaved
        else:
            lab = [rng.randrange(k) for _ in range(n)]
            for g in range(k):
                lab[g] = g                                                                          # nobody empty
            groups = [[i + 1 for i in range(n) if lab[i] == g] for g in range(k)]
        ranges = [expr_of(g) for g in groups]
    else:
        cuts = sorted(rng.sample(range(1, n), min(n - 1, rng.randint(0, 2)))) if n > 1 else []
        ranges, start = [], 1
        for c in cuts + [n]:
            ranges.append("%d:%d" % (start, c))
            start = c + 1
    return dict(n=n, A=A, b=b, xs=xs, r=r, ranges=ranges, kind=kind)


def run_one(exe, s):
    d = tempfile.mkdtemp(prefix="c06_", dir=os.environ.get("VERIF_TMP", os.path.join(VERIF, ".cache", "tmp")))
    try:
        with open(os.path.join(d, "g.gmc"), "w") as f:
            for row in s["A"]:
                f.write(" ".join(repr(v) for v in row) + " \n")
        with open(os.path.join(d, "g.imc"), "w") as f:
            for x, y in zip(s["xs"], s["b"]):
                f.write("%r %r\n" % (x, y))
        with open(os.path.join(d, "g.idx"), "w") as f:
            for k, e in enumerate(s["ranges"]):
                f.write("T%d %s\n" % (k, e))
        r = subprocess.run([exe, "-i", "g.imc", "-g", "g.gmc", "-n", "g.idx", "-r", repr(s["r"])], cwd=d, stdout=subprocess.PIPE, stderr=subprocess.PIPE, timeout=600)
        status = "ok" if r.returncode == 0 else (r.stderr.decode(errors="replace")[-120:].strip().encode().hex() or "-")
        out = ["C06 imc %s %d %s" % (s["sid"], s["n"], me(s["r"]))]
        out.append(" ".join(me(v) for row in s["A"] for v in row))
        out.append(" ".join(me(v) for v in s["b"]))
        out.append(" ".join(me(v) for v in s["xs"]))
        out.append("%d %s" % (len(s["ranges"]), " ".join(e.encode().hex() for e in s["ranges"])))
        tabs = []
        for k in range(len(s["ranges"])):
            p = os.path.join(d, "T%d.dpot.imc" % k)
            if not os.path.exists(p):
                continue
            rows = [l.split() for l in open(p) if l.strip() and not l.startswith("#")]
            tabs.append("%d %d %s" % (k, len(rows), " ".join(me(float(t[0])) + " " + me(float(t[1])) for t in rows)))
        extra = [f for f in os.listdir(d) if f.endswith(".dpot.imc") and not re.fullmatch(r"T\d+\.dpot\.imc", f)]
        out.append("%s %d %s" % (status, len(tabs), " ".join(tabs)))
        out.append(str(len(extra)))
        return " ".join(out)
    finally:
        shutil.rmtree(d, ignore_errors=True)


def mk(seed, i):
    s = gen(random.Random(seed * 1000003 + i))
    s["sid"] = "%d:%d" % (seed, i)
    return s


def main():
    exe, mode = sys.argv[1], sys.argv[2]
    n = int(sys.argv[3]) if len(sys.argv) > 3 else 50
    seed = int(os.environ.get("VERIF_SEED", "1"))
    os.makedirs(os.environ.get("VERIF_TMP", os.path.join(VERIF, ".cache", "tmp")), exist_ok=True)
    if mode == "rand":
        scen = [mk(seed, i) for i in range(n)]
    else:
        scen = []
        for line in sys.stdin:
            for t in re.findall(r"C06 imc (\d+:\d+)", line):
                a, b = t.split(":")
                scen.append(mk(int(a), int(b)))
    with ThreadPoolExecutor(int(os.environ.get("VERIF_JOBS", "12"))) as ex:
        for line in ex.map(lambda s: run_one(exe, s), scen):
            sys.stdout.write(line + "\n")


if __name__ == "__main__":
    main()
