// C03 correspondence harness: NBListGrid / NBList pair searches (one and two lists, with and without exclusions, counting
// match callback) and the 3-body searches (grid and simple; 1, 2 and 3 bead types) of the real code on generated configurations.
#include "common.h"
#include <tuple>
#include <algorithm>
#include <map>
#include <sstream>
#include <votca/csg/beadlist.h>
#include <votca/csg/interaction.h>
#include <votca/csg/nblist.h>
#include <votca/csg/nblist_3body.h>
#include <votca/csg/nblistgrid.h>
#include <votca/csg/nblistgrid_3body.h>
#include <votca/csg/topology.h>
using namespace votca;
using namespace votca::csg;
typedef Eigen::Vector3d V;
typedef Eigen::Matrix3d M;

static std::string v3(const V &v) { return dexact(v.x()) + " " + dexact(v.y()) + " " + dexact(v.z()); }

struct Cfg {
  M box; double rc; std::vector<V> pos; std::vector<int> type; std::vector<int> mol; std::vector<std::pair<int, int>> bonds;
};

static std::map<std::pair<long, long>, int> calls;
static bool counter(Bead *a, Bead *b, const V &, double) { calls[{a->getId(), b->getId()}]++; return true; }

static void build(Topology &top, const Cfg &c) {
  top.setBox(c.box);
  top.CreateResidue("R");
  int nm = 0; for (int m : c.mol) nm = std::max(nm, m + 1);
  std::vector<Molecule *> mols;
  for (int m = 0; m < nm; m++) mols.push_back(top.CreateMolecule("M"));
  top.RegisterBeadType("A"); top.RegisterBeadType("B"); top.RegisterBeadType("C");
  for (size_t i = 0; i < c.pos.size(); i++) {
    const char *tn = c.type[i] == 0 ? "A" : c.type[i] == 1 ? "B" : "C";
    Bead *b = top.CreateBead(Bead::spherical, "b" + std::to_string(i), tn, 0, 1.0, 0.0);
    b->setPos(c.pos[i]);
    mols[c.mol[i]]->AddBead(b, "b" + std::to_string(i));
  }
  for (auto &bd : c.bonds) {
    Interaction *ic = new IBond(bd.first, bd.second);
    ic->setGroup("g"); ic->setIndex(0); ic->setMolecule(c.mol[bd.first]);
    top.AddBondedInteraction(ic);
  }
  top.RebuildExclusions();
}

static std::string header(const char *op, const char *algo, int lists, int excl, const Cfg &c) {
  std::ostringstream o;
  o << "C03 " << op << " " << algo << " " << lists << " " << excl << " " << v3(c.box.col(0)) << " " << v3(c.box.col(1)) << " " << v3(c.box.col(2))
    << " " << dexact(c.rc) << " " << c.pos.size();
  for (size_t i = 0; i < c.pos.size(); i++) o << " " << c.type[i] << " " << c.mol[i] << " " << v3(c.pos[i]);
  o << " " << c.bonds.size();
  for (auto &b : c.bonds) o << " " << b.first << " " << b.second;
  return o.str();
}

// counting match function of the three-body searches: invocations per triple (centre, {j, k})
static std::map<std::tuple<long, long, long>, int> calls3;
static bool counter3(Bead *a, Bead *b, Bead *c, const V &, const V &, const V &, double, double, double) {
  long j = b->getId(), k = c->getId();
  calls3[std::make_tuple(a->getId(), std::min(j, k), std::max(j, k))]++;
  return true;
}

static bool g_exact = true;
static void pairs_case(const Cfg &c, bool grid, int lists, bool excl) {
  Topology top; build(top, c);
  BeadList l1, l2;
  l1.Generate(top, lists == 1 ? "*" : "A");
  if (lists == 2) l2.Generate(top, "B");
  calls.clear();
  std::unique_ptr<NBList> nb(grid ? (NBList *)new NBListGrid() : new NBList());
  // one case in three uses a search object that has already searched the same topology with a smaller (or, rarely, larger) cutoff:
  // the property is about every search, not only the first one an object performs
  static long reuse_ctr = 0;
  if (++reuse_ctr % 3 == 0) {
    nb->setCutoff(c.rc * (reuse_ctr % 5 == 0 ? 1.7 : reuse_ctr % 2 ? 0.31 : 0.55));
    if (lists == 1) nb->Generate(l1, excl); else nb->Generate(l1, l2, excl);
    nb->Cleanup();
  }
  nb->setCutoff(c.rc);
  nb->SetMatchFunction(counter);
  if (lists == 1) nb->Generate(l1, excl); else nb->Generate(l1, l2, excl);
  std::ostringstream o;
  o << header(g_exact ? "pairs" : "gpairs", grid ? "grid" : "simple", lists, excl, c) << " | " << nb->size();
  for (auto *p : *nb) o << " " << p->first()->getId() << " " << p->second()->getId() << " " << v3(p->r()) << " " << dexact(p->dist());
  o << " " << calls.size();
  for (auto &kv : calls) o << " " << kv.first.first << " " << kv.first.second << " " << kv.second;
  printf("%s\n", o.str().c_str());
}

static void triples_case(const Cfg &c, bool grid, int ntypes, bool excl) {
  Topology top; build(top, c);
  BeadList l1, l2, l3;
  l1.Generate(top, ntypes == 1 ? "*" : "A");
  if (ntypes >= 2) l2.Generate(top, "B");
  if (ntypes == 3) l3.Generate(top, "C");
  std::unique_ptr<NBList_3Body> nb(grid ? (NBList_3Body *)new NBListGrid_3Body() : new NBList_3Body());
  static long reuse_ctr3 = 0;
  if (++reuse_ctr3 % 3 == 0) {
    nb->setCutoff(c.rc * (reuse_ctr3 % 5 == 0 ? 1.7 : reuse_ctr3 % 2 ? 0.31 : 0.55));
    if (ntypes == 1) nb->Generate(l1, excl); else if (ntypes == 2) nb->Generate(l1, l2, excl); else nb->Generate(l1, l2, l3, excl);
    nb->Cleanup();
  }
  nb->setCutoff(c.rc);
  calls3.clear();
  nb->SetMatchFunction(counter3);
  if (ntypes == 1) nb->Generate(l1, excl); else if (ntypes == 2) nb->Generate(l1, l2, excl); else nb->Generate(l1, l2, l3, excl);
  std::ostringstream o;
  o << header(g_exact ? "triples" : "gtriples", grid ? "grid" : "simple", ntypes, excl, c) << " | " << nb->size();
  for (auto *t : *nb) o << " " << t->bead1()->getId() << " " << t->bead2()->getId() << " " << t->bead3()->getId();
  long ninv = 0;
  for (auto &kv : calls3) ninv += kv.second;
  o << " | " << ninv << " " << calls3.size();
  printf("%s\n", o.str().c_str());
}

static double dy(Rng &r, long lo, long hi, int den) { return (double)r.range(lo, hi) / (double)den; }

static Cfg gen(Rng &r, bool exact, int maxn, bool dense = false) {
  Cfg c; c.box = M::Zero();
  double L[3];
  for (int i = 0; i < 3; i++) { L[i] = exact ? std::ldexp(1.0, (int)r.range(1, 3)) : 2 + r.unit() * 6; c.box(i, i) = L[i]; }
  if (r.coin(1, 2)) {
    c.box(0, 1) = exact ? L[0] * dy(r, -4, 4, 8) : (r.unit() - 0.5) * L[0];
    c.box(0, 2) = exact ? L[0] * dy(r, -4, 4, 8) : (r.unit() - 0.5) * L[0];
    c.box(1, 2) = exact ? L[1] * dy(r, -4, 4, 8) : (r.unit() - 0.5) * L[1];
  }
  Topology t; t.setBox(c.box);
  double h = t.ShortestBoxSize();
  // cutoffs giving 1, 2, 3 or many cells per direction; always below h/2
  int ck = (int)r.below(5);
  double frac = ck == 0 ? 0.45 + r.unit() * 0.04 : ck == 1 ? 0.34 + r.unit() * 0.1 : ck == 2 ? 0.26 + r.unit() * 0.07 : ck == 3 ? 0.05 + r.unit() * 0.15 : 0.2 + r.unit() * 0.29;
  c.rc = h * frac;
  if (exact) { c.rc = std::floor(c.rc * 32) / 32; if (c.rc <= 0) c.rc = 1.0 / 32; }
  int n = (int)r.below(maxn + 1);
  int nmol = 1 + (int)r.below(3);
  for (int i = 0; i < n; i++) {
    V p;
    int pk = (int)r.below(8);
    if (dense && i > 0 && r.coin(1, 2)) pk = r.coin() ? 2 : 4;   // three-body cases: most beads close to an earlier one, so that triples exist
    for (int k = 0; k < 3; k++) {
      double f = exact ? dy(r, 0, 32, 32) : r.unit();           // fractional coordinate
      if (pk == 0) f = exact ? dy(r, 0, 8, 8) : f;              // on cell boundaries
      if (pk == 1) f += (double)r.range(-3, 3);                 // outside the primary cell
      p(k) = f;
    }
    c.pos.push_back(c.box * p);
    if (pk == 2 && i > 0) c.pos.back() = c.pos[r.below(i)] + V(dy(r, -4, 4, 16), dy(r, -4, 4, 16), dy(r, -4, 4, 16));   // clusters
    if (pk == 3 && i > 0) {   // exactly at the cutoff distance (axis direction, or a 3-4-5 / 5-12-13 direction)
      int o = (int)r.below(3); V d = V::Zero();
      int kind = exact ? 0 : (int)r.below(3);
      if (kind == 0) d(o) = c.rc;
      else if (kind == 1) { d(o) = c.rc * 0.6; d((o + 1) % 3) = c.rc * 0.8; }
      else { d(o) = c.rc * 5 / 13; d((o + 2) % 3) = -c.rc * 12 / 13; }
      c.pos.back() = c.pos[r.below(i)] + d * (r.coin() ? 1.0 : -1.0);
    }
    if (pk == 4 && i > 0) {   // just inside the cutoff, any direction: the pairs a too-thin cell grid loses first
      V d(r.unit() - 0.5, r.unit() - 0.5, r.unit() - 0.5);
      if (exact) { d = V::Zero(); d((int)r.below(3)) = r.coin() ? 1 : -1; }
      if (d.norm() < 1e-3) d = V(0, 0, 1);
      d = d.normalized() * (exact ? c.rc - 1.0 / 64 : c.rc * (0.9 + 0.0999 * r.unit()));
      c.pos.back() = c.pos[r.below(i)] + d;
    }
    c.type.push_back((int)r.below(3));
    c.mol.push_back((int)r.below(nmol));
  }
  int nb = n >= 2 ? (int)r.below(n) : 0;
  for (int b = 0; b < nb; b++) {
    int i = (int)r.below(n), j = (int)r.below(n);
    if (i != j && c.mol[i] == c.mol[j]) c.bonds.push_back({i, j});
  }
  return c;
}

int main(int argc, char **argv) {
  std::string mode = argc > 1 ? argv[1] : "rand";
  long N = argc > 2 ? atol(argv[2]) : 300;
  Rng r(env_seed() * 7919 + 3);
  if (mode == "replay") {
    std::string line;
    while (std::getline(std::cin, line)) {
      if (line.empty() || line[0] == '#') continue;
      std::vector<std::string> t = split_ws(line);
      if (t.size() < 27 || t[0] != "C03") continue;
      Cfg c; size_t k = 5;
      auto rd = [&]() { double x = dparse(t[k], t[k + 1]); k += 2; return x; };
      for (int col = 0; col < 3; col++) for (int i = 0; i < 3; i++) c.box(i, col) = rd();
      c.rc = rd();
      int n = atoi(t[k++].c_str());
      for (int i = 0; i < n; i++) { c.type.push_back(atoi(t[k++].c_str())); c.mol.push_back(atoi(t[k++].c_str())); V p; for (int j = 0; j < 3; j++) p(j) = rd(); c.pos.push_back(p); }
      int nb = atoi(t[k++].c_str());
      for (int i = 0; i < nb; i++) { int a = atoi(t[k++].c_str()), b = atoi(t[k++].c_str()); c.bonds.push_back({a, b}); }
      bool grid = t[2] == "grid"; int lists = atoi(t[3].c_str()); bool excl = t[4] == "1";
      g_exact = t[1][0] != 'g';
      if (t[1] == "pairs" || t[1] == "gpairs") pairs_case(c, grid, lists, excl); else triples_case(c, grid, lists, excl);
    }
    return 0;
  }
  for (long i = 0; i < N; i++) {
    bool exact = r.coin(2, 3);
    g_exact = exact;
    int k = (int)r.below(10);
    if (k < 7) {
      Cfg c = gen(r, exact, 14);
      bool excl = r.coin();
      int lists = r.coin(2, 3) ? 1 : 2;
      pairs_case(c, true, lists, excl);
      pairs_case(c, false, lists, excl);
    } else {
      int nt = 1 + (int)r.below(3);
      Cfg c = gen(r, exact, nt == 3 ? 12 : 8, nt >= 2);
      bool excl = r.coin(1, 3);
      triples_case(c, true, nt, excl);
      triples_case(c, false, nt, excl);
    }
  }
  return 0;
}
