// C17 correspondence harness: generated operation sequences (write / read of every supported kind under nested group paths,
// overwrites with the same and with different shapes, reopen cycles with each access level) against the REAL
// CheckpointFile / CheckpointWriter / CheckpointReader and the system HDF5.  Every read uses a fresh handle on the file.
#include "common.h"
#include <cstring>
#include <cmath>
#include <memory>
#include <sstream>
#include <unistd.h>
#include <votca/xtp/checkpoint.h>
#include <votca/xtp/checkpointtable.h>
using namespace votca;
using namespace votca::xtp;

static std::string tmpdir() { const char *d = getenv("VERIF_TMP"); return d ? d : "."; }

struct Val {
  std::string kind;                 // i d b s vi vd vs m v3 lv3
  long i = 0; double d = 0; bool b = false; std::string s;
  std::vector<long> vi; std::vector<double> vd; std::vector<std::string> vs;
  Eigen::MatrixXd m; Eigen::Vector3d v3 = Eigen::Vector3d::Zero(); std::vector<Eigen::Vector3d> lv3;
};

static std::string show(const Val &v) {
  std::ostringstream o;
  o << v.kind;
  if (v.kind == "i") o << " " << v.i;
  else if (v.kind == "d") o << " " << dexact(v.d);
  else if (v.kind == "b") o << " " << (v.b ? 1 : 0);
  else if (v.kind == "s") o << " " << hexs(v.s);
  else if (v.kind == "vi") { o << " " << v.vi.size(); for (long x : v.vi) o << " " << x; }
  else if (v.kind == "vd") { o << " " << v.vd.size(); for (double x : v.vd) o << " " << dexact(x); }
  else if (v.kind == "vs") { o << " " << v.vs.size(); for (auto &x : v.vs) o << " " << hexs(x); }
  else if (v.kind == "m") { o << " " << v.m.rows() << " " << v.m.cols(); for (Index i = 0; i < v.m.rows(); i++) for (Index j = 0; j < v.m.cols(); j++) o << " " << dexact(v.m(i, j)); }
  else if (v.kind == "v3") { for (int k = 0; k < 3; k++) o << " " << dexact(v.v3[k]); }
  else if (v.kind == "lv3") { o << " " << v.lv3.size(); for (auto &x : v.lv3) for (int k = 0; k < 3; k++) o << " " << dexact(x[k]); }
  return o.str();
}

static std::string rstr(Rng &r) {
  static const char *pool[] = {"", "a", "hello world", "x y\tz", "\xc3\xa4\xc3\xb6\xc3\xbc \xe2\x82\xac", "line1\nline2", "0", "very long string with many characters 0123456789 0123456789 0123456789"};
  return pool[r.below(8)];
}
static double rdbl(Rng &r) {
  switch (r.below(6)) { case 0: return 0.0; case 1: return -0.0; case 2: return 1e-300; case 3: return -1.7976931348623157e308; case 4: return (double)r.range(-100, 100) / 8.0; default: return (r.unit() - 0.5) * 1e3; }
}

static Val gen(Rng &r, const std::string &kind) {
  Val v; v.kind = kind;
  if (kind == "i") v.i = r.coin(1, 4) ? (r.coin() ? 9223372036854775807L : -9223372036854775807L - 1) : r.range(-1000, 1000);
  else if (kind == "d") v.d = rdbl(r);
  else if (kind == "b") v.b = r.coin();
  else if (kind == "s") v.s = rstr(r);
  else if (kind == "vi") { int n = r.coin(1, 4) ? 10 + (int)r.below(30) : (int)r.below(5); for (int k = 0; k < n; k++) v.vi.push_back(r.coin(1, 4) ? r.range(-50, 50) * 4294967296L + r.range(0, 1000) : r.range(-50, 50)); }
  else if (kind == "vd") { int n = (int)r.below(5); for (int k = 0; k < n; k++) v.vd.push_back(rdbl(r)); }
  else if (kind == "vs") { int n = r.coin(1, 4) ? 10 + (int)r.below(15) : (int)r.below(4); for (int k = 0; k < n; k++) v.vs.push_back(rstr(r)); }
  else if (kind == "m") {
    static const int shapes[][2] = {{0, 0}, {3, 0}, {0, 3}, {1, 1}, {1, 5}, {5, 1}, {2, 3}, {3, 2}, {4, 4}, {40, 30}};
    const int *s = shapes[r.below(10)];
    v.m = Eigen::MatrixXd(s[0], s[1]);
    for (Index i = 0; i < v.m.rows(); i++) for (Index j = 0; j < v.m.cols(); j++) v.m(i, j) = rdbl(r);
  } else if (kind == "v3") v.v3 = Eigen::Vector3d(rdbl(r), rdbl(r), rdbl(r));
  else if (kind == "lv3") { /* long lists too: element names ind10, ind11, ... sort before ind2 */ int n = r.coin(1, 3) ? 9 + (int)r.below(20) : (int)r.below(4); for (int k = 0; k < n; k++) v.lv3.push_back(Eigen::Vector3d(rdbl(r), rdbl(r), rdbl(r))); }
  return v;
}

static bool g_noarg = false;    // the root group through the overloads without argument (getWriter() / getReader())
static CheckpointWriter writer_at(CheckpointFile &f, const std::string &path) {
  if (path == "/") return g_noarg ? f.getWriter() : f.getWriter("/");
  if (path == "/g1") return f.getWriter("/g1");
  if (path == "/g2") return f.getWriter("/g2");
  return f.getWriter("/g1").openChild("sub");       // "/g1/sub"
}
static CheckpointReader reader_at(CheckpointFile &f, const std::string &path) {
  if (path == "/") return g_noarg ? f.getReader() : f.getReader("/");
  if (path == "/g1") return f.getReader("/g1");
  if (path == "/g2") return f.getReader("/g2");
  return f.getReader("/g1").openChild("sub");
}

static void write_val(CheckpointWriter &w, const Val &v, const std::string &name) {
  // one array write in three lands on a name that was just written with an array of the SAME extent but a narrower element type of the same
  // HDF5 class (int under Index, float under double): writing a name again replaces the old value, whatever kind of array it was
  static long narrow_ctr = 0;
  if ((v.kind == "vi" || v.kind == "vd" || v.kind == "m") && ++narrow_ctr % 3 == 0) {
    try {
      if (v.kind == "vi" && !v.vi.empty()) { std::vector<int> t(v.vi.size(), 7); w(t, name); }
      else if (v.kind == "vd" && !v.vd.empty()) { std::vector<float> t(v.vd.size(), 0.5f); w(t, name); }
      else if (v.kind == "m" && v.m.size() > 0) { Eigen::MatrixXf t = Eigen::MatrixXf::Constant(v.m.rows(), v.m.cols(), 0.25f); w(t, name); }
    } catch (std::exception &) {}
  }
  if (v.kind == "i") w((Index)v.i, name);
  else if (v.kind == "d") w(v.d, name);
  else if (v.kind == "b") w(v.b, name);
  else if (v.kind == "s") w(v.s, name);
  else if (v.kind == "vi") { std::vector<Index> t(v.vi.begin(), v.vi.end()); w(t, name); }
  else if (v.kind == "vd") w(v.vd, name);
  else if (v.kind == "vs") w(v.vs, name);
  else if (v.kind == "m") w(v.m, name);
  else if (v.kind == "v3") w(v.v3, name);
  else if (v.kind == "lv3") w(v.lv3, name);
}
static Val read_val(CheckpointReader &rd, const std::string &kind, const std::string &name) {
  Val v; v.kind = kind;
  if (kind == "i") { Index t = 0; rd(t, name); v.i = t; }
  else if (kind == "d") rd(v.d, name);
  else if (kind == "b") rd(v.b, name);
  else if (kind == "s") rd(v.s, name);
  else if (kind == "vi") { std::vector<Index> t; static long used_i = 0; if (++used_i % 3 == 0) t.assign(5, 77); rd(t, name); v.vi.assign(t.begin(), t.end()); }
  else if (kind == "vd") { static long used_d = 0; if (++used_d % 3 == 0) v.vd.assign(4, 0.125); rd(v.vd, name); }
  else if (kind == "vs") {
    // one read in three goes into a list that is in use (an object that is loaded a second time): the list read is the list stored,
    // not the old contents followed by it — as for the numeric lists, which are resized
    static long used_ctr = 0;
    if (++used_ctr % 3 == 0) { v.vs.push_back("stale-entry"); v.vs.push_back(""); }
    rd(v.vs, name);
  }
  else if (kind == "vi_unused") {}
  else if (kind == "m") rd(v.m, name);
  else if (kind == "v3") rd(v.v3, name);
  else if (kind == "lv3") rd(v.lv3, name);
  return v;
}

// ---- structured table rows (CptTable): the row type of the harness mirrors the row types of the library (Atom::data, PotentialIO::data)
struct RowIO {
  struct data { Index id; char *label; double x; double w; Index k; };
  static void SetupCptTable(CptTable &t) {
    t.addCol<Index>("id", HOFFSET(data, id));
    t.addCol<std::string>("label", HOFFSET(data, label));
    t.addCol<double>("x", HOFFSET(data, x));
    t.addCol<double>("w", HOFFSET(data, w));
    t.addCol<Index>("k", HOFFSET(data, k));
  }
};
struct RowVal { long id; std::string label; double x, w; long k; };

static std::vector<RowVal> gen_rows(Rng &r, int n) {
  std::vector<RowVal> v;
  for (int i = 0; i < n; i++) v.push_back({r.coin(1, 5) ? 9223372036854775807L : r.range(-1000, 1000), rstr(r), rdbl(r), rdbl(r), r.range(-5, 5)});
  return v;
}
static void show_rows(std::ostringstream &o, const std::vector<RowVal> &v) {
  o << " " << v.size();
  for (auto &x : v) o << " " << x.id << " " << hexs(x.label) << " " << dexact(x.x) << " " << dexact(x.w) << " " << x.k;
}
static bool g_rowwise = false;     // rows written / read one at a time (writeToRow / readFromRow) instead of as one block
static void write_rows(CheckpointWriter &w, const std::string &name, const std::vector<RowVal> &v) {
  CptTable table = w.openTable<RowIO>(name, v.size());
  std::vector<RowIO::data> buf(v.size());
  for (size_t i = 0; i < v.size(); i++) { buf[i].id = v[i].id; buf[i].label = const_cast<char *>(v[i].label.c_str()); buf[i].x = v[i].x; buf[i].w = v[i].w; buf[i].k = v[i].k; }
  if (g_rowwise) { for (size_t i = 0; i < v.size(); i++) table.writeToRow(&buf[i], i); }
  else table.write(buf);
}

// one table: written, optionally written again under the same name (same or different number of rows), read from a fresh handle
static void table_scenario(Rng &r, long id) {
  std::string file = tmpdir() + "/c17t_" + std::to_string((int)getpid()) + "_" + std::to_string(id) + ".hdf5";
  unlink(file.c_str());
  static const char *paths[] = {"/", "/g1", "/g1/sub"};
  std::string path = paths[r.below(3)];
  int n1 = 1 + (int)r.below(6);
  bool again = r.coin();
  int n2 = again ? (r.coin() ? n1 : 1 + (int)r.below(6)) : 0;
  std::vector<RowVal> a = gen_rows(r, n1), b = gen_rows(r, n2);
  g_rowwise = r.coin(1, 3);
  std::ostringstream o;
  o << "C17 tbl " << hexs(path + (g_rowwise ? "#rowwise" : ""));
  show_rows(o, a);
  o << " " << (again ? 1 : 0);
  show_rows(o, b);
  std::string st1 = "ok", st2 = again ? "ok" : "-", st3 = "ok";
  try { CheckpointFile f(file, CheckpointAccessLevel::CREATE); CheckpointWriter w = writer_at(f, path); write_rows(w, "T", a); } catch (std::exception &e) { st1 = "err"; }
  if (again) { try { CheckpointFile f(file, CheckpointAccessLevel::MODIFY); CheckpointWriter w = writer_at(f, path); write_rows(w, "T", b); } catch (std::exception &e) { st2 = "err"; } }
  std::vector<RowVal> back;
  try {
    CheckpointFile f(file, CheckpointAccessLevel::READ);
    CheckpointReader rd = reader_at(f, path);
    CptTable table = rd.openTable<RowIO>("T");
    std::vector<RowIO::data> buf(table.numRows());
    if (g_rowwise) { for (size_t i = 0; i < buf.size(); i++) table.readFromRow(&buf[i], i); } else table.read(buf);
    for (auto &d : buf) back.push_back({(long)d.id, d.label ? std::string(d.label) : std::string("<null>"), d.x, d.w, (long)d.k});
  } catch (std::exception &e) { st3 = "err"; }
  o << " | " << st1 << " " << st2 << " " << st3;
  show_rows(o, back);
  unlink(file.c_str());
  printf("%s\n", o.str().c_str());
}

static void scenario(Rng &r, long id) {
  std::string file = tmpdir() + "/c17_" + std::to_string((int)getpid()) + "_" + std::to_string(id) + ".hdf5";
  unlink(file.c_str());
  static const char *kinds[] = {"i", "d", "b", "s", "vi", "vd", "vs", "m", "m", "m", "v3", "lv3", "lv3"};
  static const char *paths[] = {"/", "/g1", "/g1/sub", "/g2"};
  int nops = 4 + (int)r.below(14);
  std::ostringstream o;
  o << "C17 seq " << nops;
  int level = 2;   // CREATE
  struct Key { std::string kind, path, name; };
  std::vector<Key> keys;
  for (int k = 0; k < nops; k++) {
    int what = (int)r.below(10);
    if (k == 0) what = 0;
    std::string kind = kinds[r.below(13)], path = paths[r.below(4)];
    std::string name = kind + "_" + (char)('a' + r.below(2));
    // scalars of different kinds under one name: a name written again holds the new value, whatever kind the old one had
    if ((kind == "i" || kind == "d" || kind == "b" || kind == "s") && r.coin(1, 3)) name = std::string("sc_") + (char)('a' + r.below(2));
    // most reads and many writes go to names that were written before (overwrites, read-after-write)
    if (!keys.empty() && ((what >= 5 && what < 9 && r.coin(4, 5)) || (what < 5 && r.coin(2, 5)))) {
      const Key &q = keys[r.below(keys.size())];
      kind = q.kind; path = q.path; name = q.name;
    }
    if (what < 5) keys.push_back({kind, path, name});
    if (what < 5) {
      Val v = gen(r, kind);
      std::string st = "ok";
      g_noarg = r.coin();
      // a read-only handle must refuse also while the same file is open for writing elsewhere in the process (HDF5 then shares the
      // read-write intent with every handle on the file): half of the read-only attempts run next to a live MODIFY handle
      std::unique_ptr<CheckpointFile> other;
      if (level == 0 && k > 0 && r.coin()) { try { other.reset(new CheckpointFile(file, CheckpointAccessLevel::MODIFY)); } catch (std::exception &) {} }
      try {
        CheckpointFile f(file, level == 0 ? CheckpointAccessLevel::READ : (level == 2 && k == 0) ? CheckpointAccessLevel::CREATE : CheckpointAccessLevel::MODIFY);
        CheckpointWriter w = writer_at(f, path);
        write_val(w, v, name);
      } catch (std::exception &e) { st = "err"; }
      other.reset();
      o << " W " << level << " " << hexs(path) << " " << hexs(name) << " " << st << " " << show(v);
    } else if (what < 9) {
      std::string st = "ok";
      Val v; v.kind = kind;
      g_noarg = r.coin();
      try {
        CheckpointFile f(file, CheckpointAccessLevel::READ);     // a fresh handle
        CheckpointReader rd = reader_at(f, path);
        v = read_val(rd, kind, name);
      } catch (std::exception &e) { st = "err"; }
      o << " R " << hexs(path) << " " << hexs(name) << " " << st << " " << (st == "ok" ? show(v) : kind);
    } else {
      level = r.coin() ? 0 : 1;     // subsequent writes open the file read-only / for modification
      o << " L " << level;
    }
  }
  unlink(file.c_str());
  printf("%s\n", o.str().c_str());
}

// ---- large values ("any shape including ... large"): the harness compares bit for bit itself and reports counts (the values do not
// fit a protocol line); element counts straddle the powers of two around HDF5's storage-layout limits
static void big_scenario(Rng &r, long id) {
  std::string file = tmpdir() + "/c17_" + std::to_string((int)getpid()) + "_" + std::to_string(id) + "b.hdf5";
  unlink(file.c_str());
  static const long counts[] = {1000, 4095, 4096, 8190, 8191, 8192, 8193, 10000, 16383, 16384, 32767, 32768, 32769, 65536, 90000, 250000};
  static const char *kinds[] = {"m", "m", "m", "vd", "vi"};
  static const char *paths[] = {"/", "/g1", "/g1/sub", "/g2"};
  long n = counts[r.below(16)];
  std::string kind = kinds[r.below(5)], path = paths[r.below(4)];
  long rows = n, cols = 1;
  if (kind == "m") {
    int sh = (int)r.below(4);
    if (sh == 1) { rows = 1; cols = n; }
    else if (sh == 2) { long q = (long)std::floor(std::sqrt((double)n)); rows = q; cols = q; }
    else if (sh == 3) { long q = (long)std::floor(std::sqrt((double)n)); rows = q + 1; cols = n / (q + 1); }
  }
  int pre = (int)r.below(3);      // 0: written once; 1: a small value of the same kind first, then the large one; 2: the large one first, then a small one
  Val big; big.kind = kind;
  if (kind == "m") { big.m = Eigen::MatrixXd(rows, cols); for (Index i = 0; i < rows; i++) for (Index j = 0; j < cols; j++) big.m(i, j) = rdbl(r); }
  else if (kind == "vd") { for (long k = 0; k < n; k++) big.vd.push_back(rdbl(r)); }
  else { for (long k = 0; k < n; k++) big.vi.push_back(r.range(-1000000, 1000000)); }
  Val small = gen(r, kind);
  const Val &first = pre == 1 ? small : big;
  const Val &last = pre == 0 ? big : (pre == 1 ? big : small);
  std::string w1 = "ok", w2 = "-", rs = "ok";
  try { CheckpointFile f(file, CheckpointAccessLevel::CREATE); CheckpointWriter w = writer_at(f, path); write_val(w, first, "big"); } catch (std::exception &e) { w1 = "err"; }
  if (pre != 0) { w2 = "ok"; try { CheckpointFile f(file, CheckpointAccessLevel::MODIFY); CheckpointWriter w = writer_at(f, path); write_val(w, last, "big"); } catch (std::exception &e) { w2 = "err"; } }
  long mism = 0, firstbad = -1, nback = -1;
  try {
    CheckpointFile f(file, CheckpointAccessLevel::READ);
    CheckpointReader rd = reader_at(f, path);
    Val back = read_val(rd, kind, "big");
    auto cmp = [&](long k, const void *a, const void *b, size_t sz) { if (memcmp(a, b, sz) != 0) { mism++; if (firstbad < 0) firstbad = k; } };
    if (kind == "m") {
      nback = back.m.size();
      if (back.m.rows() != last.m.rows() || back.m.cols() != last.m.cols()) { mism = -1; }
      else for (Index i = 0; i < last.m.rows(); i++) for (Index j = 0; j < last.m.cols(); j++) cmp(i * last.m.cols() + j, &back.m(i, j), &last.m(i, j), sizeof(double));
    } else if (kind == "vd") {
      nback = (long)back.vd.size();
      if (back.vd.size() != last.vd.size()) mism = -1; else for (size_t k = 0; k < last.vd.size(); k++) cmp((long)k, &back.vd[k], &last.vd[k], sizeof(double));
    } else {
      nback = (long)back.vi.size();
      if (back.vi.size() != last.vi.size()) mism = -1; else for (size_t k = 0; k < last.vi.size(); k++) cmp((long)k, &back.vi[k], &last.vi[k], sizeof(last.vi[k]));
    }
  } catch (std::exception &e) { rs = "err"; }
  unlink(file.c_str());
  printf("C17 big %s %ld %ld %s %d %s %s %s %ld %ld %ld\n", kind.c_str(), rows, cols, hexs(path).c_str(), pre, w1.c_str(), w2.c_str(), rs.c_str(), nback, mism, firstbad);
}

int main(int argc, char **argv) {
  std::string mode = argc > 1 ? argv[1] : "rand";
  long N = argc > 2 ? atol(argv[2]) : 100;
  Rng r(env_seed() * 7919 + 17);
  H5::Exception::dontPrint();
  if (mode == "replay") {
    std::string line;
    while (std::getline(std::cin, line)) if (line.rfind("C17", 0) == 0) printf("%s\n", line.c_str());
    return 0;
  }
  for (long i = 0; i < N; i++) { if (r.coin(1, 6)) table_scenario(r, i); else if (r.coin(1, 8)) big_scenario(r, i); else scenario(r, i); }
  return 0;
}
