"""C17 — checkpoints: Lean theorems about the store model (read after write, overwrite replaces whatever was there, writes do not disturb other
names, missing names are errors, read-only refuses writers, reads are pure) and about the matrix hyperslab layout (index maps injective, write then
read returns every element for every shape and leading dimension) + correspondence: generated operation sequences against the real CheckpointFile
(ASan build, system HDF5), every read through a fresh handle, bit-identical comparison."""
import glob, os
import sys
import vlib, vbuild

PROP = "C17"
HARNESS = os.path.join(vlib.VERIF, "harness", "c17.cc")


def build():
    return vbuild.build_exe("c17", [HARNESS], ["tools"], flavour="asan", extra_srcs=[vbuild.REPO + "/xtp/src/libxtp/checkpoint.cc"])


def run(tier, seed, replay=None):
    ck = vlib.Check(PROP, tier, seed)
    ob = vlib.lean_obligations(PROP, thorough=(tier == "thorough"))
    try:
        exe = build()
    except vbuild.BuildError as e:
        ob["ok"] = False
        ob["failures"].append("correspondence harness does not compile against the current source: " + str(e)[-400:])
        return ck.finish(ob, rule="-")
    if not ob.get("driver_ok", True):
        return ck.finish(ob, rule="-")
    if False and replay:
        rc, out, err = vlib.run_harness(exe, ["replay"], stdin=open(replay, "rb").read())
        ck.feed("replay", out)
        return ck.finish(ob, rule="replay of " + replay)
    corpus = b"".join(open(f, "rb").read() for f in sorted(glob.glob(os.path.join(vlib.VERIF, "corpus", PROP, "*.txt"))))
    if corpus:
        rc, out, err = vlib.run_harness(exe, ["replay"], stdin=corpus)
        ck.feed("corpus", out)

    def go(n, sd):
        rc, out, err = vlib.run_harness(exe, ["rand", n], env={"VERIF_SEED": str(sd)})
        if rc != 0:
            ck.aborts.append({"what": "harness exited %d: %s" % (rc, err[-300:]), "lines": []})
        ck.feed("random(n=%d)" % n, out)
    go(1200 if tier == "quick" else 40000, seed)
    if ((not ob["ok"]) or ck.disagree) and not ck.propfail and tier == "quick":
        ck.notes.append("obligation or correspondence broken: widened search")
        go(8000, seed + 1000)
    return ck.finish(
        ob,
        rule="sequences of 4-17 operations on one checkpoint file: writes and reads of Index (incl. the extreme values), double (0, 1e-300, -DBL_MAX, dyadics), bool, "
             "strings (empty, non-ASCII, multi-line, long), vectors of those (length 0-4), matrices 0x0, 3x0, 0x3, 1x1, 1x5, 5x1, 2x3, 3x2, 4x4, 40x30, 3-vectors and "
             "lists of 3-vectors under /, /g1, /g1/sub, /g2; most reads and 40 % of the writes hit names written before (same and different shapes); the file is "
             "reopened read-only or for modification in between; every read opens a fresh read-only handle. large values (one scenario in ten): matrices Nx1, 1xN, "
             "square and near-square, double and Index vectors with 1000 ... 250000 elements (element counts on both sides of 4096, 8192, 16384, 32768, 65536), written "
             "once, over a small value, or replaced by a small value; compared bit for bit by the harness (tags big:*)",
        assumptions=["HDF5 itself is not modelled: the store model is the specification, the real library is the implementation under test (this also validates the "
                     "store assumptions on this HDF5 version)",
                     "run under AddressSanitizer / UBSan: a crash or report is a harness abort and counts as a violation",
                     "the sign of a floating-point zero and NaN payloads are not distinguished; EigenSystem objects are not generated (structured table rows are: integer / string / double columns, overwrites with the same, fewer and more rows)",
                     "scalar kinds share names (a scalar written again replaces one of another kind); a read that asks for another kind than the stored one is not judged (HDF5 converts numeric kinds); datasets and attributes live in different HDF5 name spaces"],
        trivial_tags=())
