"""C08 — file round trips: Lean theorems about the record codecs (every printed field comes back within half a unit of its last digit, rounding
is idempotent, the unit factors regenerated from constants.h cancel, frames in order, count mismatch refused, matrix text keeps shape and
orientation) + correspondence with the real trajectory writers/readers (gro, LAMMPS dump, xyz, pdb, DL_POLY HISTORY), Table, imcio matrix and
index files on generated frame sequences, clause by clause."""
import glob, os
import sys
import vlib, vbuild
sys.path.insert(0, os.path.join(vlib.VERIF, "tools", "translate"))
import tr_c08 as tr
import tr_c20 as tr_units

PROP = "C08"
HARNESS = os.path.join(vlib.VERIF, "harness", "c08.cc")


def build():
    return vbuild.build_exe("c08", [HARNESS], ["tools", "csg"], flavour="ndebug")


def run(tier, seed, replay=None):
    ck = vlib.Check(PROP, tier, seed)
    tr_err = None
    try:
        tr_units.translate()
        ck.extra["translator"] = tr.translate()
    except Exception as e:
        tr_err = "translator could not read the writers/readers: %r" % (e,)
    ob = vlib.lean_obligations(PROP, thorough=(tier == "thorough"))
    if tr_err:
        ob["ok"] = False
        ob["failures"].append(tr_err)
    try:
        exe = build()
    except vbuild.BuildError as e:
        ob["ok"] = False
        ob["failures"].append("correspondence harness does not compile against the current source: " + str(e)[-400:])
        return ck.finish(ob, rule="-")
    if not ob.get("driver_ok", True):
        return ck.finish(ob, rule="-")
    tmp = os.path.join(vlib.VERIF, ".cache", "tmp")
    os.makedirs(tmp, exist_ok=True)
    env0 = {"VERIF_TMP": tmp}
    if replay:
        rc, out, err = vlib.run_harness(exe, ["replay"], stdin=open(replay, "rb").read(), env=env0)
        ck.feed("replay", out)
        return ck.finish(ob, rule="replay of " + replay)
    corpus = b"".join(open(f, "rb").read() for f in sorted(glob.glob(os.path.join(vlib.VERIF, "corpus", PROP, "*.txt"))))
    if corpus:
        rc, out, err = vlib.run_harness(exe, ["replay"], stdin=corpus, env=env0)
        ck.feed("corpus", out)

    def go(n, sd):
        rc, out, err = vlib.run_harness(exe, ["rand", n], env=dict(env0, VERIF_SEED=str(sd)))
        if rc != 0:
            ck.aborts.append({"what": "harness exited %d: %s" % (rc, err[-300:]), "lines": []})
        ck.feed("random(n=%d)" % n, out)
    go(1500 if tier == "quick" else 40000, seed)
    if ((not ob["ok"]) or ck.disagree) and not ck.propfail and tier == "quick":
        ck.notes.append("obligation or correspondence broken: widened search")
        go(10000, seed + 1000)
    return ck.finish(
        ob,
        rule="a frame written without velocities (forces) must not come back with non-zero ones. 1-10 beads, 1-3 frames, with and without velocities and forces, orthorhombic / cubic / triclinic boxes, coordinates of both signs, on print "
             "boundaries (ties) and tiny, written by the gro, dump, xyz, pdb and dlph writers and read back by the matching trajectory reader (on a copy of "
             "the topology) and by the format's own topology reader (names); a frame with one atom more or less than the topology; tables with flags and "
             "error column; square and rectangular, non-symmetric matrices; index files with 1-4 ranges",
        assumptions=["printf / strtod / column slicing are not modelled: `%.kf` is rounding to k decimals, setprecision(s) rounding to s significant digits",
                     "harness compiled with -DNDEBUG like a release build (an assert in Topology::RegisterBeadType aborts debug builds when a dump file uses numeric type 0)",
                     "all formats are written and read in one process (several DL_POLY trajectories per process included)",
                     "H5MD (no writer) and the gromacs formats (not built) are outside the round-trip claim; csg_map executable chains are not run"],
        trivial_tags=())
