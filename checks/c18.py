"""C18 — patterns, ranges, index lists: Lean theorems + correspondence against tools::wildcmp, RangeParser,
xtp::IndexParser, csg::BeadList compiled from the working tree."""
import glob, os
import vlib, vbuild

PROP = "C18"
HARNESS = os.path.join(vlib.VERIF, "harness", "c18.cc")


def build():
    return vbuild.build_exe("c18", [HARNESS], ["tools", "csg"], extra_srcs=[vbuild.REPO + "/xtp/src/libxtp/IndexParser.cc"])


def streams(exe, tier, seed, widen=False):
    L = 5 if tier == "quick" and not widen else 6
    N = 20000 if tier == "quick" and not widen else 300000
    env = {"VERIF_SEED": str(seed)}
    yield "exhaustive(len<=%d)" % L, vlib.run_harness(exe, ["exh", L], env=env)
    yield "random(n=%d)" % N, vlib.run_harness(exe, ["rand", L, N], env=env)


def run(tier, seed, replay=None):
    ck = vlib.Check(PROP, tier, seed)
    ob = vlib.lean_obligations(PROP, thorough=(tier == "thorough"))
    try:
        exe = build()
    except vbuild.BuildError as e:
        ck.notes.append("harness does not build against the working tree: " + str(e)[-800:])
        ob["ok"] = False
        ob["failures"].append("correspondence harness does not compile against the current source")
        return ck.finish(ob, rule="-")
    if not ob.get("driver_ok", True):
        return ck.finish(ob, rule="-")
    if replay:
        data = open(replay, "rb").read()
        rc, out, err = vlib.run_harness(exe, ["replay"], stdin=data)
        ck.feed("replay", out)
        return ck.finish(ob, rule="replay of " + replay)
    corpus = b"".join(open(f, "rb").read() for f in sorted(glob.glob(os.path.join(vlib.VERIF, "corpus", PROP, "*.txt"))))
    if corpus:
        rc, out, err = vlib.run_harness(exe, ["replay"], stdin=corpus)
        ck.feed("corpus", out)
    def go(widen):
        for name, (rc, out, err) in streams(exe, tier, seed, widen):
            if rc != 0:
                ck.aborts.append({"what": "%s: harness exited %d: %s" % (name, rc, err[-300:]), "lines": []})
            ck.feed(name, out)
    go(False)
    if ((not ob["ok"]) or ck.disagree) and not ck.propfail and tier == "quick":
        ck.notes.append("obligation or correspondence broken: widened search (thorough generators)")
        go(True)
    return ck.finish(
        ob,
        rule="exhaustive: all patterns over {a,b,*,?} x strings over {a,b} up to the stated length, all range blocks with "
             "begin/stride/end in [-3,3] (three forms, pairs) + malformed list; random: longer patterns, structured and "
             "malformed range/index strings, bead selections (one PRNG, VERIF_SEED). distinct = distinct protocol lines; "
             "non-trivial = every case except unparsable lines",
        assumptions=["std::stoi / boost::lexical_cast literal syntax modelled (scanInt), tied by the malformed streams",
                     "boost::char_separator modelled as split + drop empty tokens",
                     "C strings: patterns and strings contain no NUL"],
        exhaustive=True)
