"""C11 — option handling: Lean theorems about the passes of the model (unknown / required / bad values rejected, optional absent, defaults
injected, bool literals) + correspondence with OptionsHandler::ProcessUserInput on every shipped xtp calculator description (links resolved by the
real code) with generated user trees, Property XML print/load round trips and typed-access literals."""
import glob, os, sys
import vlib, vbuild
sys.path.insert(0, os.path.join(vlib.VERIF, "tools", "translate"))
import tr_c11 as tr

PROP = "C11"
HARNESS = os.path.join(vlib.VERIF, "harness", "c11.cc")


def build():
    return vbuild.build_exe("c11", [HARNESS], ["tools"])


def run(tier, seed, replay=None):
    ck = vlib.Check(PROP, tier, seed)
    tr_err = None
    try:
        ck.extra["translator"] = tr.translate()   # Gen/XmlEscape.lean from XmlEscape in property.cc
    except Exception as e:
        tr_err = "translator could not read XmlEscape in property.cc: %r" % (e,)
    ob = vlib.lean_obligations(PROP, thorough=(tier == "thorough"))
    if tr_err:
        ob["ok"] = False
        ob["failures"].append(tr_err)
    try:
        exe = build()
    except vbuild.BuildError as e:
        ob["ok"] = False
        ob["failures"].append("correspondence harness does not compile against the current source: " + str(e)[-400:])
        return ck.finish(ob, rule="links: for every shipped description the raw calculator file and the raw sub-package files are spliced by the model (resolveLinks) and compared with LoadDefaults of the code. -")
    if not ob.get("driver_ok", True):
        return ck.finish(ob, rule="-")
    if False and replay:
        rc, out, err = vlib.run_harness(exe, ["replay"], stdin=open(replay, "rb").read())
        ck.feed("replay", out)
        return ck.finish(ob, rule="replay of " + replay)
    corpus = b"".join(open(f, "rb").read() for f in sorted(glob.glob(os.path.join(vlib.VERIF, "corpus", PROP, "*.txt"))))
    if corpus:
        rc, out, err = vlib.run_harness(exe, ["replay"], stdin=corpus)
        ck.feed("corpus", out)

    def go(n, sd):
        rc, out, err = vlib.run_harness(exe, ["rand", n, vbuild.REPO + "/xtp/share/xtp/xml/"], env={"VERIF_SEED": str(sd)})
        if rc != 0:
            ck.aborts.append({"what": "harness exited %d: %s" % (rc, err[-300:]), "lines": []})
        ck.feed("random(n=%d)" % n, out)
    go(6000 if tier == "quick" else 120000, seed)
    if ((not ob["ok"]) or ck.disagree) and not ck.propfail and tier == "quick":
        ck.notes.append("obligation or correspondence broken: widened search")
        go(40000, seed + 1000)
    return ck.finish(
        ob,
        rule="every shipped calculator description (27 files + linked sub-packages, loaded and link-resolved by the real code) twice with sparse user "
             "trees, then random: user trees generated from the resolved description (subsets of leaves, list multiplicities 0..3, duplicated options, "
             "valid and invalid values per declared choice type, undeclared names, content in unchecked sections, missing REQUIRED options), "
             "random property trees over an alphabet with XML metacharacters printed as XML and loaded again (the written file is also compared character by character with the writer model printXML over the generated escape tables), bool/int/float literals. "
             "result trees compared node by node (names, order, sorted attributes, values); errors compared by kind and named option",
        assumptions=["expat and boost::lexical_cast are external: the element structure of the XML round trip is judged on the implementation's output; the text layer (escaping of values and attribute values) is a theorem about the generated tables, with the XML entity rules stated in Model/C11X (unescape, attrValue)",
                     "the merge of list sections and 'nothing else' are tied by the correspondence (whole result tree compared), not by a theorem",
                     "additional_choices_ is empty (as for the shipped calculators)"],
        trivial_tags=())
