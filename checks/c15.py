"""C15 — classical multipoles: Lean theorems (exchange symmetry of all 9x9 blocks and of every rank gating, charge-charge / charge-dipole /
dipole-dipole point formulas, field = dE/d(dipole), Thole tensor symmetric, traceless and undamped for au3 >= 40) about the polynomials of
VSiteA<9>, whose 35 tensor entries are regenerated from eeinteractor.cc on every run (tr_c15), + correspondence with the real eeInteractor on generated StaticSite / PolarSite pairs of all rank combinations at 0.5..100 bohr, including
translated and rotated pairs and explicit Coulomb sums over shrinking point-charge clusters."""
import glob, os
import sys
import vlib, vbuild
sys.path.insert(0, os.path.join(vlib.VERIF, "tools", "translate"))
import tr_c15 as tr

PROP = "C15"
HARNESS = os.path.join(vlib.VERIF, "harness", "c15.cc")


def build():
    return vbuild.build_exe("c15", [HARNESS], ["tools", "xtp"], extra_srcs=[vbuild.REPO + "/xtp/src/libxtp/%s.cc" % x for x in ("classicalsegment", "atom", "qmatom", "segment")])


def run(tier, seed, replay=None):
    ck = vlib.Check(PROP, tier, seed)
    tr_err = None
    try:
        ck.extra["translator"] = tr.translate()
    except Exception as e:
        tr_err = "translator could not read eeinteractor.cc: %r" % (e,)
    ob = vlib.lean_obligations(PROP, thorough=(tier == "thorough"))
    if tr_err:
        ob["ok"] = False
        ob["failures"].append(tr_err)
    try:
        exe = build()
    except vbuild.BuildError as e:
        ob["ok"] = False
        ob["failures"].append("correspondence harness does not compile against the current source: " + str(e)[-400:])
        return ck.finish(ob, rule="segments of 1-3 sites with random ranks: CalcStaticEnergy(A,B) and (B,A) against the sum of the site-pair energies (tags seg:*). one pair in three is evaluated through PolarSite objects with the same permanent moments and a non-zero induced dipole. -")
    if not ob.get("driver_ok", True):
        return ck.finish(ob, rule="-")
    if False and replay:
        rc, out, err = vlib.run_harness(exe, ["replay"], stdin=open(replay, "rb").read())
        ck.feed("replay", out)
        return ck.finish(ob, rule="replay of " + replay)
    corpus = b"".join(open(f, "rb").read() for f in sorted(glob.glob(os.path.join(vlib.VERIF, "corpus", PROP, "*.txt"))))
    if corpus:
        rc, out, err = vlib.run_harness(exe, ["replay"], stdin=corpus)
        ck.feed("corpus", out)

    def go(n, sd):
        rc, out, err = vlib.run_harness(exe, ["rand", n], env={"VERIF_SEED": str(sd)})
        if rc != 0:
            ck.aborts.append({"what": "harness exited %d: %s" % (rc, err[-300:]), "lines": []})
        ck.feed("random(n=%d)" % n, out)
    go(4000 if tier == "quick" else 150000, seed)
    if ((not ob["ok"]) or ck.disagree) and not ck.propfail and tier == "quick":
        ck.notes.append("obligation or correspondence broken: widened search")
        go(40000, seed + 1000)
    return ck.finish(
        ob,
        rule="site pairs of every rank combination 0/1/2 x 0/1/2, separations 0.5..100 bohr (log-uniform) in generic and in rational unit-vector directions, "
             "generic and dyadic moments; energy in both orders, after a common translation, after a common rotation (moments rotated by the library), and from "
             "explicit Coulomb sums over point-charge clusters of two sizes (Richardson); ApplyStaticField against the difference quotient of the energy in "
             "the dipole components; Thole tensor for damping 0.1..1.1 and polarisabilities 0.5..10.5 on both sides of au3 = 40",
        assumptions=["R = |a| and sqrt(3) enter the model as 20-digit rational approximations; exp(-au3) of the Thole damping is computed by the harness",
                     "IEEE rounding not modelled: tolerances 1e-10 (model), 1e-8..1e-9 (invariances), 1e-4 (point-charge limit) relative to the largest multipole term",
                     "rotation invariance for ALL ranks is a theorem (rotation_invariant_all_ranks, over any field of characteristic zero with s*s = 3, e.g. the reals with s = sqrt 3; the field "
                     "model is generated from the same source statements and equals the rational model at K = Q: model_is_field_model) through the Cartesian closed form "
                     "closed_form_all_ranks; the modelled rotation of the quadrupole is CalculateCartesianMultipole / R Theta R^T / CalculateSphericalMultipole as in StaticSite::Rotate, "
                     "whose agreement with the code is what the numeric rotation clause of the correspondence checks; the point-charge limit is searched numerically only (PARTIAL)",
                     "induced-dipole interactions (ApplyInducedField, Cholesky_IntraSegment) are not covered"],
        trivial_tags=())
