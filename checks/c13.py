"""C13 — histograms: Lean theorems (index in range, nearest centre, periodic congruence, weight conservation,
normalisation, legacy auto range) + correspondence against HistogramNew / Histogram compiled from the working
tree in a release-like build under ASan/UBSan (an out-of-range write aborts with a report)."""
import glob, os, sys
import vlib, vbuild
sys.path.insert(0, os.path.join(vlib.VERIF, "tools", "translate"))
import tr_c13 as tr

PROP = "C13"
HARNESS = os.path.join(vlib.VERIF, "harness", "c13.cc")


def build():
    return vbuild.build_exe("c13", [HARNESS], ["tools"], flavour="asan")


def run_stream(ck, exe, name, args, seed, stdin=None):
    """run the harness; on an abort keep the complete lines, report the incomplete one, and continue with a new seed"""
    tries = 0
    s = seed
    while tries < 4:
        try:
            rc, out, err = vlib.run_harness(exe, args, stdin=stdin, env={"VERIF_SEED": str(s)}, timeout=900)
        except Exception as e:   # hang: report what was produced
            out = getattr(e, "stdout", None) or b""
            rc, err = 124, "harness did not finish within 900 s (library call does not return)"
        if rc == 0:
            ck.feed(name if tries == 0 else "%s(retry %d)" % (name, tries), out)
            return
        lines = out.split(b"\n")
        last = lines[-1].decode(errors="replace")
        what = [l for l in err.split("\n") if "ERROR" in l or "runtime error" in l or "SUMMARY" in l or "histogram" in l.lower()][:4]
        ck.aborts.append({"what": "harness aborted inside the library call (%s): %s" % (name, " | ".join(what)[:400]),
                          "lines": [last]})
        ck.feed("%s(before abort)" % name, b"\n".join(lines[:-1]) + b"\n")
        if stdin is not None:
            return
        tries += 1
        s = s * 31 + 7
    return


def run(tier, seed, replay=None):
    ck = vlib.Check(PROP, tier, seed)
    tr_err = None
    try:
        ck.extra["translator"] = tr.translate()
    except Exception as e:
        tr_err = "translator could not read histogramnew.cc / histogram.cc: %r" % (e,)
    ob = vlib.lean_obligations(PROP, thorough=(tier == "thorough"))
    if tr_err:
        ob["ok"] = False
        ob["failures"].append(tr_err)
    try:
        exe = build()
    except vbuild.BuildError as e:
        ck.notes.append("harness does not build against the working tree: " + str(e)[-800:])
        ob["ok"] = False
        ob["failures"].append("correspondence harness does not compile against the current source")
        return ck.finish(ob, rule="legacy class, periodic mode with a fixed range: the bins are judged against the wrap stated without the index arithmetic of the code (value moved by whole range lengths, nearest centre, end bins merged). -")
    if not ob.get("driver_ok", True):
        return ck.finish(ob, rule="-")
    if replay:
        run_stream(ck, exe, "replay", ["replay"], seed, stdin=open(replay, "rb").read())
        return ck.finish(ob, rule="replay of " + replay)
    corpus = b"".join(open(f, "rb").read() for f in sorted(glob.glob(os.path.join(vlib.VERIF, "corpus", PROP, "*.txt"))))
    if corpus:
        run_stream(ck, exe, "corpus", ["replay"], seed, stdin=corpus)
    N = 30000 if tier == "quick" else 600000
    run_stream(ck, exe, "random(n=%d)" % N, ["rand", N], seed)
    if ((not ob["ok"]) or ck.disagree) and not ck.propfail and not ck.aborts and tier == "quick":
        ck.notes.append("obligation or correspondence broken: widened search")
        run_stream(ck, exe, "widened(n=400000)", ["rand", 400000], seed + 1000)
    return ck.finish(
        ob,
        rule="exact stream: dyadic min/step/values (bin centres, edges = ties, k*n bins away, 2^40..2^70, 1e300), dyadic weights incl. 0 and "
             "negative, n in {1,2,3,4,5,7,8,16}, periodic and not, streams of 1..10 values compared bin by bin exactly; normalisation; "
             "generic doubles with the implementation's own step (cases within 1e-6 of a bin edge skipped and counted); legacy class on "
             "all-negative/all-positive/mixed data. distinct = distinct protocol lines; non-trivial = all but skipped-near-edge",
        assumptions=["IEEE rounding not modelled: exact stream uses inputs whose intermediates are exactly representable; generic stream compares away from bin edges",
                     "memory safety is observed (ASan/UBSan, release-like -DNDEBUG build) and proved for the model's index (binIndex_lt); the cast guard |bin| < 9e18 is part of the model"],
        trivial_tags=("gstream:skipped-near-edge",))
