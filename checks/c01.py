"""C01 — coarse-grained mapping: Lean theorems (normalised weights, force weights, mass, rejection beyond half the shortest height,
translation, image invariance, convex hull) + exact-rational correspondence through the real pipeline
CGEngine::LoadMoleculeType -> CreateCGTopology -> TopologyMap::Apply compiled from the working tree."""
import glob, os
import vlib, vbuild

PROP = "C01"
HARNESS = os.path.join(vlib.VERIF, "harness", "c01.cc")


def build():
    return vbuild.build_exe("c01", [HARNESS], ["tools", "csg"])


def run(tier, seed, replay=None):
    ck = vlib.Check(PROP, tier, seed)
    ob = vlib.lean_obligations(PROP, thorough=(tier == "thorough"))
    try:
        exe = build()
    except vbuild.BuildError as e:
        ob["ok"] = False
        ob["failures"].append("correspondence harness does not compile against the current source: " + str(e)[-400:])
        return ck.finish(ob, rule="-")
    if not ob.get("driver_ok", True):
        return ck.finish(ob, rule="-")
    if replay:
        rc, out, err = vlib.run_harness(exe, ["replay"], stdin=open(replay, "rb").read())
        ck.feed("replay", out)
        return ck.finish(ob, rule="replay of " + replay)
    corpus = b"".join(open(f, "rb").read() for f in sorted(glob.glob(os.path.join(vlib.VERIF, "corpus", PROP, "*.txt"))))
    if corpus:
        rc, out, err = vlib.run_harness(exe, ["replay"], stdin=corpus)
        ck.feed("corpus", out)

    def go(n, sd):
        rc, out, err = vlib.run_harness(exe, ["rand", n], env={"VERIF_SEED": str(sd)})
        if rc != 0:
            ck.aborts.append({"what": "harness exited %d: %s" % (rc, err[-300:]), "lines": []})
        ck.feed("random(n=%d)" % n, out)
    go(6000 if tier == "quick" else 150000, seed)
    if ((not ob["ok"]) or ck.disagree) and not ck.propfail and tier == "quick":
        ck.notes.append("obligation or correspondence broken: widened search")
        go(40000, seed + 1000)
    return ck.finish(
        ob,
        rule="generated molecules of 1..6 parents mapped to one bead (spherical and ellipsoidal), open / orthorhombic / reduced triclinic boxes, "
             "parents cut by 0..3 faces or thousands of images away, compact and too-wide molecules (about 20 % rejected), zero weights, d "
             "coefficients, missing positions/velocities/forces, count mismatches; every case re-run with one non-first parent moved by a lattice "
             "vector and with all atoms translated. exact stream (2/3): dyadic data, weights with power-of-two totals, compared exactly; generic (1/3): 1e-8",
        assumptions=["IEEE rounding not modelled (exact stream avoids it); the half-box test compares rounded norms: cases within 1e-9 of the limit are not judged",
                     "mapping XML goes through the real Property/Tokenizer parser; the orientation part of the ellipsoidal map is outside the property",
                     "translation / hull clauses judged only when every parent has a position (otherwise the weights in play do not sum to one)"],
        trivial_tags=())
