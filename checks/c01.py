"""C01 — coarse-grained mapping: Lean theorems (normalised weights, force weights, mass, rejection beyond half the shortest height,
translation, image invariance, convex hull) + exact-rational correspondence through the real pipeline
CGEngine::LoadMoleculeType -> CreateCGTopology -> TopologyMap::Apply compiled from the working tree."""
import glob, os, re, sys
import vlib, vbuild

PROP = "C01"
HARNESS = os.path.join(vlib.VERIF, "harness", "c01.cc")


EXE_HARNESS = os.path.join(vlib.VERIF, "harness", "c01m.py")


def build():
    return vbuild.build_exe("c01", [HARNESS], ["tools", "csg"])


def build_map():
    return vbuild.build_exe("csg_map", [vbuild.REPO + "/csg/src/tools/csg_map.cc"], ["tools", "csg"])


def run(tier, seed, replay=None):
    ck = vlib.Check(PROP, tier, seed)
    ob = vlib.lean_obligations(PROP, thorough=(tier == "thorough"))
    try:
        exe = build()
    except vbuild.BuildError as e:
        ob["ok"] = False
        ob["failures"].append("correspondence harness does not compile against the current source: " + str(e)[-400:])
        return ck.finish(ob, rule="-")
    if not ob.get("driver_ok", True):
        return ck.finish(ob, rule="-")
    try:
        mapexe = build_map()
    except vbuild.BuildError as e:
        ob["ok"] = False
        ob["failures"].append("csg_map does not compile from the current source: " + str(e)[-400:])
        return ck.finish(ob, rule="-")
    if replay:
        data = open(replay, "rb").read()
        rc, out, err = vlib.run_harness(exe, ["replay"], stdin=data)
        ck.feed("replay", out)
        if re.search(rb"C01 erun \d+:\d+", data):
            rc, out, err = vlib.run_harness(sys.executable, [EXE_HARNESS, mapexe, "ids"], stdin=data)
            ck.feed("replay (csg_map)", out)
        return ck.finish(ob, rule="replay of " + replay)
    corpus = b"".join(open(f, "rb").read() for f in sorted(glob.glob(os.path.join(vlib.VERIF, "corpus", PROP, "*.txt"))))
    if corpus:
        rc, out, err = vlib.run_harness(exe, ["replay"], stdin=corpus)
        ck.feed("corpus", out)

    def go(n, sd):
        rc, out, err = vlib.run_harness(exe, ["rand", n], env={"VERIF_SEED": str(sd)})
        if rc != 0:
            ck.aborts.append({"what": "harness exited %d: %s" % (rc, err[-300:]), "lines": []})
        ck.feed("random(n=%d)" % n, out)
    def go_exe(n, sd):
        rc, out, err = vlib.run_harness(sys.executable, [EXE_HARNESS, mapexe, "rand", str(n)], env={"VERIF_SEED": str(sd)}, timeout=3000)
        if rc != 0:
            ck.aborts.append({"what": "csg_map harness exited %d: %s" % (rc, err[-300:]), "lines": []})
        ck.feed("csg_map runs (n=%d)" % n, out)
    go(6000 if tier == "quick" else 150000, seed)
    go_exe(150 if tier == "quick" else 4000, seed)
    if ((not ob["ok"]) or ck.disagree) and not ck.propfail and tier == "quick":
        ck.notes.append("obligation or correspondence broken: widened search")
        go(40000, seed + 1000)
        go_exe(800, seed + 1000)
    return ck.finish(
        ob,
        rule="generated molecules of 1..6 parents mapped to one bead (spherical and ellipsoidal), open / orthorhombic / reduced triclinic boxes, "
             "parents cut by 0..3 faces or thousands of images away, compact and too-wide molecules (about 20 % rejected), zero weights, d "
             "coefficients, missing positions/velocities/forces, count mismatches; every case re-run with one non-first parent moved by a lattice "
             "vector and with all atoms translated. exact stream (2/3): dyadic data, weights with power-of-two totals, compared exactly; generic (1/3): 1e-8. "
             "executable leg: complete runs of the real csg_map (XML topology, two mapping files with random weights, optional d coefficients and zero weights, "
             "1-6 frames each with its own box; in half of the runs 30% of the atoms of every frame are moved by up to three whole box vectors per direction, so molecules are "
             "cut by 0..3 faces and every frame must be unwrapped with its own box) for the format pairs gro/dump -> gro/dump with --vel / --force; one run in seven has a molecule wider than half the "
             "box and must be refused; every written bead (position, velocity, force) compared with the model within the resolution of the output format",
        assumptions=["IEEE rounding not modelled (exact stream avoids it); the half-box test compares rounded norms: cases within 1e-9 of the limit are not judged",
                     "executable leg: the readers' unit conversion of the dump format (stod(s)*ang2nm, *kcal2kj/ang2nm; constants read from constants.h) is reproduced by the harness; "
                     "written values are compared within the output resolution (gro: 6e-4 nm / 6e-5 nm/ps; dump: 2e-7 nm, forces 1e-4 relative-absolute); masses are not observable in these formats",
                     "mapping XML goes through the real Property/Tokenizer parser; the orientation part of the ellipsoidal map is outside the property",
                     "translation / hull clauses judged only when every parent has a position (otherwise the weights in play do not sum to one)"],
        trivial_tags=())
