"""C07 — analytic derivatives: Lean theorems over ℝ (HasDerivAt of bond length, angle and dihedral along every bead displacement = Grad·e;
gradients sum to zero; LJ126 / LJG first and second parameter derivatives of the formulas regenerated from the source; D2F symmetric; cubic
B-spline linear in its coefficients; spline derivative = derivative of value) + correspondence of the real IBond / IAngle / IDihedral and
PotentialFunction classes with the model formulas, central-difference derivatives of the reported values, image shifts and rigid motions."""
import glob, os
import sys
import vlib, vbuild
sys.path.insert(0, os.path.join(vlib.VERIF, "tools", "translate"))
import tr_c07 as tr

PROP = "C07"
HARNESS = os.path.join(vlib.VERIF, "harness", "c07.cc")


def build():
    return vbuild.build_exe("c07", [HARNESS], ["tools", "csg"])


def run(tier, seed, replay=None):
    ck = vlib.Check(PROP, tier, seed)
    tr_err = None
    try:
        ck.extra["translator"] = tr.translate()
    except Exception as e:
        tr_err = "translator could not read the potential functions: %r" % (e,)
    ob = vlib.lean_obligations(PROP, thorough=(tier == "thorough"))
    if tr_err:
        ob["ok"] = False
        ob["failures"].append(tr_err)
    try:
        exe = build()
    except vbuild.BuildError as e:
        ob["ok"] = False
        ob["failures"].append("correspondence harness does not compile against the current source: " + str(e)[-400:])
        return ck.finish(ob, rule="SavePotTab rows judged at the requested grid points (steps dividing the range, not dividing it, 0.01, larger than the range). -")
    if not ob.get("driver_ok", True):
        return ck.finish(ob, rule="-")
    tmp = os.path.join(vlib.VERIF, ".cache", "tmp")
    os.makedirs(tmp, exist_ok=True)
    env0 = {"VERIF_TMP": tmp}
    if replay:
        rc, out, err = vlib.run_harness(exe, ["replay"], stdin=open(replay, "rb").read(), env=env0)
        ck.feed("replay", out)
        return ck.finish(ob, rule="replay of " + replay)
    corpus = b"".join(open(f, "rb").read() for f in sorted(glob.glob(os.path.join(vlib.VERIF, "corpus", PROP, "*.txt"))))
    if corpus:
        rc, out, err = vlib.run_harness(exe, ["replay"], stdin=corpus, env=env0)
        ck.feed("corpus", out)

    def go(n, sd):
        rc, out, err = vlib.run_harness(exe, ["rand", n], env=dict(env0, VERIF_SEED=str(sd)))
        if rc != 0:
            ck.aborts.append({"what": "harness exited %d: %s" % (rc, err[-300:]), "lines": []})
        ck.feed("random(n=%d)" % n, out)
    go(4000 if tier == "quick" else 120000, seed)
    if ((not ob["ok"]) or ck.disagree) and not ck.propfail and tier == "quick":
        ck.notes.append("obligation or correspondence broken: widened search")
        go(40000, seed + 1000)
    return ck.finish(
        ob,
        rule="bonds, angles and dihedrals on generic geometries (bond lengths 0.1..1) and on lattice geometries (many equal lengths, right angles, exactly "
             "representable coordinates) in open, orthorhombic and triclinic boxes, beads scattered over periodic images; Grad of every bead compared with "
             "the model formula and with Richardson-extrapolated central differences of EvaluateVar, sum of gradients, image shifts, rotations (open box) "
             "and translations; LJ126 / LJG / cubic B-spline potentials: value, all first and second parameter derivatives at r inside, at both ends "
             "and outside the range, numerical parameter derivatives, SavePotTab grids",
        assumptions=["square roots enter the model as witnesses: the driver uses 20-digit rational approximations, the theorems Real.sqrt; the angle value is "
                     "checked through a 30-term Taylor polynomial of the cosine; exp(-λ3 (r-λ4)²) of LJG is computed by the harness (libm) and handed to the model",
                     "geometries within sin² < 1e-2 of the documented singularities (collinear bonds, parallel normals) and bonds shorter than 1e-3 are skipped",
                     "IEEE rounding not modelled: comparisons with tolerance 1e-8 (model) and 1e-5 (numerical derivatives)",
                     "HasDerivAt for the middle beads (angle bead 1, dihedral beads 1 and 2) follows from the proved sum-to-zero identities and translation "
                     "invariance and is additionally checked numerically; the sign factor of the dihedral is treated as locally constant"],
        trivial_tags=("ia-singular-skipped", "ia-near-singular"))
