"""C16 — graphs: Lean theorems (breadth-first labelling = shortest-path hop counts for every adjacency order; explored set = reachable set;
minimality) + exhaustive correspondence on all labelled graphs up to 6 vertices (7 in the thorough tier) and random larger ones: components,
single-network detection, distance labels, reduce/expand, structure equivalence under relabelling, separation by attributes."""
import glob, os
import vlib, vbuild

PROP = "C16"
HARNESS = os.path.join(vlib.VERIF, "harness", "c16.cc")


def build():
    return vbuild.build_exe("c16", [HARNESS], ["tools", "csg"])


def run(tier, seed, replay=None):
    ck = vlib.Check(PROP, tier, seed)
    ob = vlib.lean_obligations(PROP, thorough=(tier == "thorough"))
    try:
        exe = build()
    except vbuild.BuildError as e:
        ob["ok"] = False
        ob["failures"].append("correspondence harness does not compile against the current source: " + str(e)[-400:])
        return ck.finish(ob, rule="-")
    if not ob.get("driver_ok", True):
        return ck.finish(ob, rule="-")
    if replay:
        rc, out, err = vlib.run_harness(exe, ["replay"], stdin=open(replay, "rb").read())
        ck.feed("replay", out)
        return ck.finish(ob, rule="replay of " + replay)
    corpus = b"".join(open(f, "rb").read() for f in sorted(glob.glob(os.path.join(vlib.VERIF, "corpus", PROP, "*.txt"))))
    if corpus:
        rc, out, err = vlib.run_harness(exe, ["replay"], stdin=corpus)
        ck.feed("corpus", out)

    def go(nv, nr, sd):
        rc, out, err = vlib.run_harness(exe, ["exh", nv], env={"VERIF_SEED": str(sd)}, timeout=3000)
        if rc != 0:
            ck.aborts.append({"what": "exh: harness exited %d: %s" % (rc, err[-300:]), "lines": []})
        ck.feed("all labelled graphs on 1..%d vertices" % nv, out)
        rc, out, err = vlib.run_harness(exe, ["rand", nr], env={"VERIF_SEED": str(sd)})
        if rc != 0:
            ck.aborts.append({"what": "rand: harness exited %d: %s" % (rc, err[-300:]), "lines": []})
        ck.feed("random(n=%d)" % nr, out)
    go(5 if tier == "quick" else 7, 1500 if tier == "quick" else 100000, seed)
    rc, out, err = vlib.run_harness(exe, ["sep", 1200 if tier == "quick" else 40000], env={"VERIF_SEED": str(seed)})
    if rc != 0:
        ck.aborts.append({"what": "sep: harness exited %d: %s" % (rc, err[-300:]), "lines": []})
    ck.feed("separation pairs", out)
    return ck.finish(
        ob,
        rule="exhaustive: every labelled simple graph on 1..5 vertices (1 099 graphs; up to 7 vertices, 2.1 million graphs, in the thorough tier), vertex attributes cycling through "
             "three (name, mass) pairs; random: chains, rings, stars, trees, fused rings and disconnected mixtures up to 40 vertices with negative and large "
             "ids. per graph: parts of decoupleIsolatedSubGraphs, singleNetwork, Dist labels from three starts (the observed neighbour order is handed to the "
             "model), reduceGraph+expandGraph vertex and edge sets, BeadStructure equivalence with reversed insertion order and ids shifted by 1000, and "
             "non-equivalence after changing one bead's name and mass. separation pairs: structures of 1..5 beads against a copy with one name changed, one mass "
             "changed by a relative 1e-2 .. 1e-6 (must be reported different) or 1e-9 .. 1e-13, names chosen so that the separator-free concatenation of the node "
             "strings coincides, and renumbered identical copies (must be reported equivalent); judged on the exact multisets of (name, mass)",
        assumptions=["structure-id label independence and reduce/expand losslessness are tied by the (exhaustive small + random) correspondence only: partial",
                     "unordered_map iteration order is observed and passed to the model; the theorems hold for every order",
                     "the two-level queue of Graph_BF_Visitor is modelled as one FIFO (same pop order)"],
        exhaustive=True,
        trivial_tags=())
