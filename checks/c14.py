"""C14 — KMC selection and Marcus rates: Lean theorems (partition for every tree shape, totality, construction for every tie order;
positivity / linearity / detailed balance / waiting time about the GENERATED Marcus expression) + correspondence against the real
huffmanTree<GLink>/GNode and Rate_Engine compiled from the working tree."""
import glob, os, sys
import vlib, vbuild
sys.path.insert(0, os.path.join(vlib.VERIF, "tools", "translate"))
import tr_c14 as tr

PROP = "C14"
HARNESS = os.path.join(vlib.VERIF, "harness", "c14.cc")
XTP = ["gnode", "rate_engine", "qmpair", "segment", "atom", "checkpoint"]


def build():
    return vbuild.build_exe("c14", [HARNESS], ["tools"], extra_srcs=[vbuild.REPO + "/xtp/src/libxtp/%s.cc" % x for x in XTP])


def run(tier, seed, replay=None):
    ck = vlib.Check(PROP, tier, seed)
    tr_err = None
    try:
        ck.extra["translator"] = tr.translate()
    except Exception as e:
        tr_err = "translator could not read rate_engine.cc / kmccalculator.cc: %r" % (e,)
    ob = vlib.lean_obligations(PROP, thorough=(tier == "thorough"))
    if tr_err:
        ob["ok"] = False
        ob["failures"].append(tr_err)
    try:
        exe = build()
    except vbuild.BuildError as e:
        ob["ok"] = False
        ob["failures"].append("correspondence harness does not compile against the current source: " + str(e)[-400:])
        return ck.finish(ob, rule="-")
    if not ob.get("driver_ok", True):
        return ck.finish(ob, rule="-")
    env = {"VERIF_SEED": str(seed)}
    if replay:
        rc, out, err = vlib.run_harness(exe, ["replay"], stdin=open(replay, "rb").read(), env=env)
        ck.feed("replay", out)
        rc, out, err = vlib.run_harness(exe, ["rand", 600], env=env)
        ck.feed("random(n=600)", out)
        return ck.finish(ob, rule="replay of " + replay)
    corpus = b"".join(open(f, "rb").read() for f in sorted(glob.glob(os.path.join(vlib.VERIF, "corpus", PROP, "*.txt"))))
    if corpus:
        rc, out, err = vlib.run_harness(exe, ["replay"], stdin=corpus, env=env)
        ck.feed("corpus", out)

    def go(n):
        rc, out, err = vlib.run_harness(exe, ["exh"], env=env)
        if rc != 0:
            ck.aborts.append({"what": "exh: harness exited %d: %s" % (rc, err[-300:]), "lines": []})
        ck.feed("exhaustive(rates in {1..4}^n, n<=6)", out)
        rc, out, err = vlib.run_harness(exe, ["rand", n], env=env)
        if rc != 0:
            ck.aborts.append({"what": "rand: harness exited %d: %s" % (rc, err[-300:]), "lines": []})
        ck.feed("random(n=%d)" % n, out)
    go(2500 if tier == "quick" else 40000)
    if ((not ob["ok"]) or ck.disagree) and not ck.propfail and tier == "quick":
        ck.notes.append("obligation or correspondence broken: widened search")
        env["VERIF_SEED"] = str(seed + 1000)
        go(15000)
    return ck.finish(
        ob,
        rule="trees: all rate vectors in {1,2,3,4}^n, n<=6 (5460 trees); random exact (dyadic rates with power-of-two total: thresholds, "
             "lookups and per-event measure compared exactly) and generic (12 decades, equal rates, 1..100 events; tolerance 1e-11, lookups "
             "within 1e-9 of a threshold not compared); lookups at 0, 1, every threshold, +-1 ulp and interval midpoints. rates: random "
             "pairs, both carriers, with/without field, equal and unequal reorganisation energies. distinct = distinct protocol lines",
        assumptions=["thresholds: exact arithmetic theorem; double rounding of the thresholds modelled not verified (exact stream avoids it)",
                     "std::priority_queue tie order: the harness passes the observed shape to the model; theorems hold for every shape / tie order",
                     "Promotetime is translated from kmccalculator.cc but not executed against the real class (KMCCalculator does not build stand-alone)",
                     "the harness reads private members via '#define private public' in the harness translation unit only"])
