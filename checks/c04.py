"""C04 — csg_stat: Lean theorems (running averages = frame means for every frame count, bin of a pair distance = HistogramNew's nearest
centre, gmc = minus covariance and symmetric, ideal gas → 1, unit integral, shells telescope, block restart) about an executable model of
the whole pipeline (C01 mapping → C02 minimum image → C03 exclusions → C13 binning → averages → WriteDist / WriteIMCData), compared number by
number with everything the REAL csg_stat executable (built from the working tree) writes on complete generated inputs."""
import glob, os, re, sys
import vlib, vbuild
sys.path.insert(0, os.path.join(vlib.VERIF, "tools", "translate"))
import tr_c04 as tr

PROP = "C04"
HARNESS = os.path.join(vlib.VERIF, "harness", "c04.py")


def build():
    R = vbuild.REPO
    return vbuild.build_exe("csg_stat", [R + "/csg/src/tools/csg_stat.cc", R + "/csg/src/tools/csg_stat_imc.cc"], ["tools", "csg"])


def run(tier, seed, replay=None):
    ck = vlib.Check(PROP, tier, seed)
    tr_err = None
    try:
        ck.extra["translator"] = tr.translate()
    except Exception as e:
        tr_err = "translator could not read csg_stat_imc.cc / average.h: %r" % (e,)
    ob = vlib.lean_obligations(PROP, thorough=(tier == "thorough"))
    if tr_err:
        ob["ok"] = False
        ob["failures"].append(tr_err)
    try:
        exe = build()
    except vbuild.BuildError as e:
        ob["ok"] = False
        ob["failures"].append("csg_stat does not compile from the current source: " + str(e)[-400:])
        return ck.finish(ob, rule="one run in four takes the route without a mapping (one atom per bead, bonds / angles / dihedrals declared in the xml topology, no --cg); -")
    if not ob.get("driver_ok", True):
        return ck.finish(ob, rule="-")
    py = sys.executable

    def ids(text, name):
        got = sorted(set(re.findall(r"C04 run (\d+:\d+)", text)))
        if got:
            rc, out, err = vlib.run_harness(py, [HARNESS, exe, "ids"], stdin=" ".join(got).encode())
            ck.feed(name, out)

    if replay:
        ids(open(replay).read(), "replay")
        return ck.finish(ob, rule="replay of " + replay)
    corpus = "".join(open(f).read() for f in sorted(glob.glob(os.path.join(vlib.VERIF, "corpus", PROP, "*.txt"))))
    ids(corpus, "corpus")

    def go(n, sd):
        rc, out, err = vlib.run_harness(py, [HARNESS, exe, "rand", str(n)], env={"VERIF_SEED": str(sd)})
        if rc != 0:
            ck.aborts.append({"what": "harness exited %d: %s" % (rc, err[-300:]), "lines": []})
        ck.feed("random(n=%d)" % n, out)
    go(250 if tier == "quick" else 6000, seed)
    if ((not ob["ok"]) or ck.disagree) and not ck.propfail and tier == "quick":
        ck.notes.append("obligation or correspondence broken: widened search")
        go(1500, seed + 1000)
    return ck.finish(
        ob,
        rule="complete csg_stat runs: XML topology with a chain molecule (2-4 coarse-grained beads of 1-3 atoms, random mapping weights) and a "
             "solvent, 1-6 frames each with its own orthorhombic or triclinic box, 1-3 pair interactions (same and cross type, ranges starting at 0, "
             "at step/2 and later), three-body angular interactions, bond / angle / dihedral groups, exclusions on and off (--include-intra), "
             "--do-imc with one or two groups and random targets, block lengths 0-3, --first-frame / --nframes selections, 1-3 threads; every "
             "number of every written file (.dist.new, block files, .imc, .gmc, .idx) compared with the model",
        assumptions=["IEEE rounding not modelled: runs in which some distance or angle lies within 1e-8 (relative) of a bin boundary are not judged; "
                     "written numbers compared with relative tolerance 5e-8 (the files carry 8-10 digits)",
                     "π enclosed in [3.141592653589793, 3.141592653589794]; the cosines of angular bin boundaries are computed by the harness (python math.cos)",
                     "trajectory reading: the harness writes .gro files and hands the model the doubles nearest to the decimal strings it wrote",
                     "mean-force tables (force option) and --begin times are not generated"],
        trivial_tags=("skip-near-boundary",))
