"""C06 — inverse solvers: Lean theorems over real matrices (the eigen-decomposition inverse of csg_imc_solve solves the regularised normal
equations, uniqueness for r > 0, KKT conditions imply constrained least-squares optimality, index ranges partition x) + exact certificates per
run: the residual of the normal equations for the matrix AS WRITTEN IN THE FILE against every table the real csg_imc_solve executable wrote, and
the KKT residuals of the real linalg_constrained_qrsolve."""
import glob, os, re, sys
import vlib, vbuild

PROP = "C06"
HARNESS = os.path.join(vlib.VERIF, "harness", "c06.cc")
PYH = os.path.join(vlib.VERIF, "harness", "c06.py")
PYF = os.path.join(vlib.VERIF, "harness", "c06f.py")


def build():
    R = vbuild.REPO
    return (vbuild.build_exe("c06", [HARNESS], ["tools"]),
            vbuild.build_exe("csg_imc_solve", [R + "/csg/src/tools/csg_imc_solve.cc"], ["tools", "csg"]),
            vbuild.build_exe("csg_fmatch", [R + "/csg/src/tools/csg_fmatch.cc"], ["tools", "csg"]))


def run(tier, seed, replay=None):
    ck = vlib.Check(PROP, tier, seed)
    ob = vlib.lean_obligations(PROP, thorough=(tier == "thorough"))
    try:
        exe, imc, fm = build()
    except vbuild.BuildError as e:
        ob["ok"] = False
        ob["failures"].append("harness / csg_imc_solve do not compile against the current source: " + str(e)[-400:])
        return ck.finish(ob, rule="-")
    if not ob.get("driver_ok", True):
        return ck.finish(ob, rule="-")
    py = sys.executable

    def ids(text, name):
        got = sorted(set(re.findall(r"C06 imc (\d+:\d+)", text)))
        if got:
            rc, out, err = vlib.run_harness(py, [PYH, imc, "ids"], stdin=" ".join("C06 imc " + g for g in got).encode())
            ck.feed(name, out)
        gotf = sorted(set(re.findall(r"C06 fmatch (\d+:\d+)", text)))
        if gotf:
            rc, out, err = vlib.run_harness(py, [PYF, fm, "ids"], stdin=" ".join("C06 fmatch " + g for g in gotf).encode())
            ck.feed(name + "-fmatch", out)
        kkt = "\n".join(l for l in text.split("\n") if l.startswith("C06 kkt"))
        if kkt:
            ck.feed(name + "-kkt", kkt.encode())

    if replay:
        ids(open(replay).read(), "replay")
        return ck.finish(ob, rule="replay of " + replay)
    corpus = "".join(open(f).read() for f in sorted(glob.glob(os.path.join(vlib.VERIF, "corpus", PROP, "*.txt"))))
    ids(corpus, "corpus")

    def go(n, sd):
        rc, out, err = vlib.run_harness(exe, ["rand", 4 * n], env={"VERIF_SEED": str(sd)})
        if rc != 0:
            ck.aborts.append({"what": "harness exited %d: %s" % (rc, err[-300:]), "lines": []})
        ck.feed("kkt(n=%d)" % (4 * n), out)
        rc, out, err = vlib.run_harness(py, [PYH, imc, "rand", str(n)], env={"VERIF_SEED": str(sd)})
        if rc != 0:
            ck.aborts.append({"what": "imc harness exited %d: %s" % (rc, err[-300:]), "lines": []})
        ck.feed("imc(n=%d)" % n, out)
        nf = max(40, n // 5)
        rc, out, err = vlib.run_harness(py, [PYF, fm, "rand", str(nf)], env={"VERIF_SEED": str(sd)})
        if rc != 0:
            ck.aborts.append({"what": "fmatch harness exited %d: %s" % (rc, err[-300:]), "lines": []})
        ck.feed("fmatch(n=%d)" % nf, out)
    go(400 if tier == "quick" else 8000, seed)
    if ((not ob["ok"]) or ck.disagree) and not ck.propfail and tier == "quick":
        ck.notes.append("obligation or correspondence broken: widened search")
        go(2000, seed + 1000)
    return ck.finish(
        ob,
        rule="csg_imc_solve runs on generated .gmc/.imc/.idx files: 1..8 unknowns, symmetric, non-symmetric, triangular and integer matrices, r from 1e-3 to 300, "
             "1..3 index ranges; the written tables checked against the normal equations of the file's matrix in exact arithmetic and against the exact "
             "solution; linalg_constrained_qrsolve on well-posed problems with 2..8 unknowns, 0..n-1 full-rank constraints, dyadic and generic entries: "
             "feasibility and stationarity residuals with multipliers supplied by the harness; csg_fmatch runs (executable) on 20-70 beads of two types plus dimers (bond), trimers (two bonds and an angle) and tetramers (three bonds, two angles and a dihedral; all pairs inside a molecule excluded), "
             "2-6 frames, 1-3 frames per block, constrained and plain least squares, reference forces generated exactly from natural cubic splines on the "
             "force-matching grids: the forces recomputed from the written .force tables must reproduce every reference force",
        assumptions=["Eigen's SelfAdjointEigenSolver and HouseholderQR are external: certified per run by exact residuals (tolerance 1e-7 relative to the problem scale)",
                     "csg_fmatch: runs in which some grid interval receives fewer than three samples in some block are not judged (the least-squares problem is "
                     "then not well posed); three-body force matching is not generated; the angle and dihedral values enter the model as witnesses (python acos) whose cosines (and, for dihedrals, signs) are checked against the geometry with a 30-term Taylor polynomial, triples with sin θ < 0.05 are not judged; square roots in the force "
                     "recomputation are 20-digit rational approximations, forces compared to 1e-5 of the largest force",
                     "ill-posed inputs (rank-deficient constraints, zero columns, r <= 0) are not generated"],
        trivial_tags=("fmatch-skip-under-sampled",))
