"""C10 — shared job file: Lean theorems for every process count, cache size, job count and interleaving (assigned exactly once, results kept,
crash consistency of the back-up/write order; lock mode regenerated from the source) about a transition-system model replayed against the REAL
ProgObserver running in forked processes that the parent interleaves (and kills) at the VOTCA_VERIF hook points."""
import glob, os
import sys
import vlib, vbuild
sys.path.insert(0, os.path.join(vlib.VERIF, "tools", "translate"))
import tr_c10 as tr

PROP = "C10"
HARNESS = os.path.join(vlib.VERIF, "harness", "c10.cc")


def build():
    return vbuild.build_exe("c10", [HARNESS], ["tools"], extra_srcs=[vbuild.REPO + "/xtp/src/libxtp/%s.cc" % x for x in ("progressobserver", "job")])


def run(tier, seed, replay=None):
    ck = vlib.Check(PROP, tier, seed)
    tr_err = None
    try:
        ck.extra["translator"] = tr.translate()
    except Exception as e:
        tr_err = "translator could not read progressobserver.cc: %r" % (e,)
    ob = vlib.lean_obligations(PROP, thorough=(tier == "thorough"))
    if tr_err:
        ob["ok"] = False
        ob["failures"].append(tr_err)
    try:
        exe = build()
    except vbuild.BuildError as e:
        ob["ok"] = False
        ob["failures"].append("correspondence harness does not compile against the current source: " + str(e)[-400:])
        return ck.finish(ob, rule="-")
    if not ob.get("driver_ok", True):
        return ck.finish(ob, rule="-")
    if replay:
        rc, out, err = vlib.run_harness(exe, ["replay"], stdin=open(replay, "rb").read())
        ck.feed("replay", out)
        return ck.finish(ob, rule="replay of " + replay)
    corpus = b"".join(open(f, "rb").read() for f in sorted(glob.glob(os.path.join(vlib.VERIF, "corpus", PROP, "*.txt"))))
    if corpus:
        rc, out, err = vlib.run_harness(exe, ["replay"], stdin=corpus)
        ck.feed("corpus", out)

    def go(n, sd):
        rc, out, err = vlib.run_harness(exe, ["rand", n], env={"VERIF_SEED": str(sd)}, timeout=3000)
        if rc != 0:
            ck.aborts.append({"what": "harness exited %d: %s" % (rc, err[-300:]), "lines": []})
        ck.feed("random(n=%d)" % n, out)

    def go_restart(n, sd):
        rc, out, err = vlib.run_harness(exe, ["restart", n], env={"VERIF_SEED": str(sd)}, timeout=3000)
        if rc != 0:
            ck.aborts.append({"what": "harness (restart scenarios) exited %d: %s" % (rc, err[-300:]), "lines": []})
        ck.feed("restart(n=%d)" % n, out)
    go(100 if tier == "quick" else 3000, seed)
    go_restart(300 if tier == "quick" else 6000, seed)
    if ((not ob["ok"]) or ck.disagree) and not ck.propfail and tier == "quick":
        ck.notes.append("obligation or correspondence broken: widened search")
        go(500, seed + 1000)
        go_restart(800, seed + 1000)
    return ck.finish(
        ob,
        rule="every WRITE_JOBS event must lie between the lock and the release of its process (anything else is a divergence from the model); one run in four stalls processes that sit inside WRITE_JOBS until nobody else can move. each case = one complete run of 1..4 real processes (ProgObserver + QMThread, stub job execution) on a job file of 1..8 jobs, cache 1..3; the parent "
             "chooses at random which process advances at every hook point (lock request, lock held, merged, back-up written, about to write, each record "
             "written, about to release, job execution); one run in three kills a random process at a random hook point (also in the middle of writing the "
             "back-up or the job file) and records whether file and back-up parse there. the interleaving is replayed on the model; clauses are judged on "
             "the trace, the crash record and the final job file. restart scenarios: 1..3 processes on a job file with a HISTORY (jobs AVAILABLE, COMPLETE by "
             "two earlier hosts with their outputs, FAILED with an error text, ASSIGNED by a dead host), each process with its own restart pattern (none, "
             "host(...), stat(FAILED), both), cache 1..3 and maxjobs (unlimited or 1..3), a stub calculator that fails deterministically for some (process, job) "
             "pairs; judged: every executed job carries in the final file exactly what its last executor reported and every other job its historical record, "
             "jobs are (re)started only when AVAILABLE or named by the executor's pattern, maxjobs respected, nothing lost",
        assumptions=["fcntl lock semantics (released when the holder dies) are assumed as observed; a process blocked in the kernel lock is detected by a 2-50 ms silence",
                     "restart scenarios run without crash injection; the whole-run behaviour with restart patterns is tied by replay on the second model (Votca.C10R), "
                     "whose theorems are step-level (merge, start test, assignment loop, report); the invariant proofs are about the fresh-file protocol",
                     "crash transitions are outside the theorems (assigned_once is proved for crash-free interleavings); crash runs are judged by the trace predicates",
                     "a crash while the job file itself is written leaves it torn; survivors that load it fail with a parse error instead of falling back to the back-up (allowed by the property, recorded in DESIGN.md)"],
        trivial_tags=())
