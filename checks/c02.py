"""C02 — minimum image: Lean theorems (lattice difference, antisymmetry, shortest image for all orthorhombic boxes, recovery of the
short image for reduced triclinic boxes and its uniqueness, shift invariance) + exact-rational correspondence with
Topology::setBox / BCShortestConnection / BoxVolume / ShortestBoxSize compiled from the working tree."""
import glob, os
import vlib, vbuild

PROP = "C02"
HARNESS = os.path.join(vlib.VERIF, "harness", "c02.cc")


def build():
    return vbuild.build_exe("c02", [HARNESS], ["tools", "csg"])


def run(tier, seed, replay=None):
    ck = vlib.Check(PROP, tier, seed)
    ob = vlib.lean_obligations(PROP, thorough=(tier == "thorough"))
    try:
        exe = build()
    except vbuild.BuildError as e:
        ob["ok"] = False
        ob["failures"].append("correspondence harness does not compile against the current source: " + str(e)[-400:])
        return ck.finish(ob, rule="every other case goes through the bead-index route Topology::getDist(i, j) on beads of the same (reused) topology object (tags :by-bead-index); -")
    if not ob.get("driver_ok", True):
        return ck.finish(ob, rule="-")
    env = {"VERIF_SEED": str(seed)}
    if replay:
        rc, out, err = vlib.run_harness(exe, ["replay"], stdin=open(replay, "rb").read(), env=env)
        ck.feed("replay", out)
        return ck.finish(ob, rule="replay of " + replay)
    corpus = b"".join(open(f, "rb").read() for f in sorted(glob.glob(os.path.join(vlib.VERIF, "corpus", PROP, "*.txt"))))
    if corpus:
        rc, out, err = vlib.run_harness(exe, ["replay"], stdin=corpus, env=env)
        ck.feed("corpus", out)

    def go(n, sd):
        rc, out, err = vlib.run_harness(exe, ["rand", n], env={"VERIF_SEED": str(sd)})
        if rc != 0:
            ck.aborts.append({"what": "harness exited %d: %s" % (rc, err[-300:]), "lines": []})
        ck.feed("random(n=%d)" % n, out)
    go(6000 if tier == "quick" else 120000, seed)
    if ((not ob["ok"]) or ck.disagree) and not ck.propfail and tier == "quick":
        ck.notes.append("obligation or correspondence broken: widened search")
        go(40000, seed + 1000)
    return ck.finish(
        ob,
        rule="exact stream (2/3): open / orthorhombic (power-of-two edges) / reduced and non-reduced triclinic boxes (dyadic off-diagonals up to "
             "and including the reduction limits), dyadic points: nearby, exact ties, thousands of images away, multiples of L/8; auto and "
             "explicit box types; every case also with swapped points and with one point moved by a random lattice vector; compared exactly. "
             "generic stream (1/3): arbitrary doubles, tolerance 1e-9, near-ties skipped. predicates on the implementation output: integer "
             "lattice combination (solved exactly), antisymmetry, shift invariance, no shorter image among 125 neighbours, volume, height",
        assumptions=["IEEE rounding not modelled (exact stream avoids it); std::round = round half away from zero",
                     "Eigen's array round() assumed to be std::round (validated by the tie cases of the exact stream)",
                     "shortest box height compared for right-handed boxes (det > 0)"])
