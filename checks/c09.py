"""C09 — Davidson solver: Lean theorems about the status logic (success iff every requested root passed the residual test, otherwise
NoConvergence with the failed roots zeroed) + exact per-run certificates on the real solver's output: residuals, orthonormality, order, and the
number of eigenvalues below each returned value by exact LDL^T inertia (symmetric mode) resp. of the pencil (A+B)(A-B)(A+B) - s(A+B) (Hamiltonian mode)."""
import glob, os
import sys
import vlib, vbuild

PROP = "C09"
HARNESS = os.path.join(vlib.VERIF, "harness", "c09.cc")


def build():
    return vbuild.build_exe("c09", [HARNESS], ["tools"], extra_srcs=[vbuild.REPO + "/xtp/src/libxtp/%s.cc" % x for x in ("davidsonsolver", "matrixfreeoperator")])


def run(tier, seed, replay=None):
    ck = vlib.Check(PROP, tier, seed)
    ob = vlib.lean_obligations(PROP, thorough=(tier == "thorough"))
    try:
        exe = build()
    except vbuild.BuildError as e:
        ob["ok"] = False
        ob["failures"].append("correspondence harness does not compile against the current source: " + str(e)[-400:])
        return ck.finish(ob, rule="one case in three uses the solver object for the second time (it first solves the row/column-reversed matrix); -")
    if not ob.get("driver_ok", True):
        return ck.finish(ob, rule="-")
    if False and replay:
        rc, out, err = vlib.run_harness(exe, ["replay"], stdin=open(replay, "rb").read())
        ck.feed("replay", out)
        return ck.finish(ob, rule="replay of " + replay)
    corpus = b"".join(open(f, "rb").read() for f in sorted(glob.glob(os.path.join(vlib.VERIF, "corpus", PROP, "*.txt"))))
    if corpus:
        rc, out, err = vlib.run_harness(exe, ["replay"], stdin=corpus)
        ck.feed("corpus", out)

    def go(n, sd):
        rc, out, err = vlib.run_harness(exe, ["rand", n], env={"VERIF_SEED": str(sd)})
        if rc != 0:
            ck.aborts.append({"what": "harness exited %d: %s" % (rc, err[-300:]), "lines": []})
        ck.feed("random(n=%d)" % n, out)
    rc, out, err = vlib.run_harness(exe, ["grid"], env={"VERIF_SEED": str(seed)})
    ck.feed("upstream-family grid", out)
    go(500 if tier == "quick" else 20000, seed)
    if ((not ob["ok"]) or ck.disagree) and not ck.propfail and tier == "quick":
        ck.notes.append("obligation or correspondence broken: widened search")
        go(3000, seed + 1000)
    return ck.finish(
        ob,
        rule="grid: the matrix family of the upstream unit test (sqrt(i) diagonal, 0.01/(i-j)^2 coupling, the doubles themselves) at sizes 16..28 with n/4..n/2 roots, "
             "every update size, normal and lapack tolerance (the regime in which the correction vectors of one iteration are nearly dependent); random: "
             "symmetric matrices of size 4..31 with dyadic entries: diagonally dominant, clusters of three, exactly degenerate pairs, partly negative, six orders "
             "of magnitude, block-decoupled; 1..n/4 roots; DPR / OLSEN, min / safe / max update, the four tolerances, iteration limits 2..5 and 50, search-space "
             "limits forcing restarts; BSE block matrices [[A,B],[-B,-A]] of size 6..20 in Hamiltonian mode",
        assumptions=["PARTIAL: only the status logic is proved; that a successful run returns the lowest eigenvalues is decided per run by certificates computed in "
                     "exact rational arithmetic on the solver's output",
                     "the inertia certificate rests on Sylvester's law of inertia (eigenvalues below s = negative pivots of LDL^T of A - s), a standard theorem "
                     "that is not formalised here",
                     "'Linear dependencies in Gram-Schmidt' exceptions (about 12 % of the generated runs, mostly degenerate spectra) are counted as the solver "
                     "saying so, not as failures; matrix-free operators and sizes above 23 are not generated"],
        trivial_tags=())
