"""C03 — neighbour searches: Lean theorems (list-level exactness of the cell scan for one and two lists, membership characterisation of the
brute-force list, index wrap = Euclidean residue, offsets distinct and complete, floor adjacency, short vector spans less than one cell,
scaled normals dual to the box vectors, exclusions) + correspondence with NBListGrid / NBList / NBList(Grid)_3Body compiled from the working tree."""
import glob, os
import vlib, vbuild

PROP = "C03"
HARNESS = os.path.join(vlib.VERIF, "harness", "c03.cc")


def build():
    return vbuild.build_exe("c03", [HARNESS], ["tools", "csg"])


def run(tier, seed, replay=None):
    ck = vlib.Check(PROP, tier, seed)
    ob = vlib.lean_obligations(PROP, thorough=(tier == "thorough"))
    try:
        exe = build()
    except vbuild.BuildError as e:
        ob["ok"] = False
        ob["failures"].append("correspondence harness does not compile against the current source: " + str(e)[-400:])
        return ck.finish(ob, rule="-")
    if not ob.get("driver_ok", True):
        return ck.finish(ob, rule="-")
    if replay:
        rc, out, err = vlib.run_harness(exe, ["replay"], stdin=open(replay, "rb").read())
        ck.feed("replay", out)
        return ck.finish(ob, rule="replay of " + replay)
    corpus = b"".join(open(f, "rb").read() for f in sorted(glob.glob(os.path.join(vlib.VERIF, "corpus", PROP, "*.txt"))))
    if corpus:
        rc, out, err = vlib.run_harness(exe, ["replay"], stdin=corpus)
        ck.feed("corpus", out)

    def go(n, sd):
        rc, out, err = vlib.run_harness(exe, ["rand", n], env={"VERIF_SEED": str(sd)})
        if rc != 0:
            ck.aborts.append({"what": "harness exited %d: %s" % (rc, err[-300:]), "lines": []})
        ck.feed("random(n=%d)" % n, out)
    go(900 if tier == "quick" else 30000, seed)
    if ((not ob["ok"]) or ck.disagree) and not ck.propfail and tier == "quick":
        ck.notes.append("obligation or correspondence broken: widened search")
        go(6000, seed + 1000)
    return ck.finish(
        ob,
        rule="random configurations of 0..14 beads (0..8 for triples) in orthorhombic and reduced triclinic boxes, cutoffs below half the shortest "
             "height giving 2, 3 or many cells per direction, beads on cell boundaries, outside the primary cell and in clusters, one list and two "
             "disjoint type lists, exclusions from bonds on/off; each configuration through the grid and the simple search; a counting match callback; "
             "3-body grid and simple searches for 1/2/3 types. exact stream (2/3, dyadic, decided at equality with the cutoff) and generic stream "
             "(configurations with a pair within 1e-9 of the cutoff skipped). spec = independent 27-image minimum, O(N^2)/O(N^3) enumeration",
        assumptions=["the 3-body grid scan order is not modelled: its stored triple set is compared with the enumeration of the simple 3-body search and the spec",
                     "IEEE rounding not modelled; cell counts use exact square roots (results do not depend on them unless the algorithm is wrong)",
                     "the assembly of the three directions into the 3-D neighbour-cell list is a theorem (cellsFor_nodup, neighbour_cell_listed, and end to end grid_search_exact / grid_search_exact2 for every periodic box with non-zero determinant and every positive cutoff); the driver still checks Nodup + completeness on every generated configuration, which ties the model's cell construction to the code's",
                     "the search in an open box (cells from the bounding box of the beads) is covered by the correspondence only"],
        trivial_tags=())
