"""C12 — splines and tables: cubic basis functions regenerated from cubicspline.cc; Lean theorems (interpolation/continuity, derivative jump =
residual of the linear system, natural and periodic boundary rows, line exactness, superposition, Taylor identities for the derivative, linear
and Akima pieces, Table::Smooth) + correspondence with CubicSpline / LinSpline / AkimaSpline / Table of the working tree with exact residuals."""
import glob, os
import sys
import vlib, vbuild
sys.path.insert(0, os.path.join(vlib.VERIF, "tools", "translate"))
import tr_c12 as tr

PROP = "C12"
HARNESS = os.path.join(vlib.VERIF, "harness", "c12.cc")
PYR = os.path.join(vlib.VERIF, "harness", "c12r.py")


def build():
    return vbuild.build_exe("c12", [HARNESS], ["tools"])


def build_resample():
    return vbuild.build_exe("csg_resample", [vbuild.REPO + "/csg/src/tools/csg_resample.cc"], ["tools", "csg"])


def run(tier, seed, replay=None):
    ck = vlib.Check(PROP, tier, seed)
    tr_err = None
    try:
        ck.extra["translator"] = tr.translate()
    except Exception as e:
        tr_err = "translator could not read cubicspline.cc: %r" % (e,)
    ob = vlib.lean_obligations(PROP, thorough=(tier == "thorough"))
    if tr_err:
        ob["ok"] = False
        ob["failures"].append(tr_err)
    try:
        exe = build()
    except vbuild.BuildError as e:
        ob["ok"] = False
        ob["failures"].append("correspondence harness does not compile against the current source: " + str(e)[-400:])
        return ck.finish(ob, rule="one fit in three uses --boundaries derivativezero on data sampled from a cubic spline with zero end slopes. -")
    if not ob.get("driver_ok", True):
        return ck.finish(ob, rule="-")
    if False and replay:
        rc, out, err = vlib.run_harness(exe, ["replay"], stdin=open(replay, "rb").read())
        ck.feed("replay", out)
        return ck.finish(ob, rule="replay of " + replay)
    corpus = b"".join(open(f, "rb").read() for f in sorted(glob.glob(os.path.join(vlib.VERIF, "corpus", PROP, "*.txt"))))
    if corpus:
        rc, out, err = vlib.run_harness(exe, ["replay"], stdin=corpus)
        ck.feed("corpus", out)

    def go(n, sd):
        rc, out, err = vlib.run_harness(exe, ["rand", n], env={"VERIF_SEED": str(sd)})
        if rc != 0:
            ck.aborts.append({"what": "harness exited %d: %s" % (rc, err[-300:]), "lines": []})
        ck.feed("random(n=%d)" % n, out)
    go(3000 if tier == "quick" else 100000, seed)
    # the csg_resample executable
    try:
        rexe = build_resample()
        nr = 400 if tier == "quick" else 8000
        rc, out, err = vlib.run_harness(sys.executable, [PYR, rexe, "rand", str(nr)], env={"VERIF_SEED": str(seed)})
        if rc != 0:
            ck.aborts.append({"what": "csg_resample harness exited %d: %s" % (rc, err[-300:]), "lines": []})
        ck.feed("csg_resample(n=%d)" % nr, out)
    except vbuild.BuildError as e:
        ob["ok"] = False
        ob["failures"].append("csg_resample does not compile from the current source: " + str(e)[-300:])
    if ((not ob["ok"]) or ck.disagree) and not ck.propfail and tier == "quick":
        ck.notes.append("obligation or correspondence broken: widened search")
        go(40000, seed + 1000)
    return ck.finish(
        ob,
        rule="random grids (uniform and non-uniform, 4..64 knots, dyadic abscissae), ordinates affine / random / sampled from a sine; cubic interpolation "
             "with natural and periodic boundaries (second derivatives read out, residual of every row evaluated exactly), evaluation at all knots, both "
             "ends, between knots and outside the grid; sums of data sets (superposition); linear and Akima splines (slopes read out); Table::Smooth 0..3 "
             "passes; cubic Fit of data sampled from a function of the fit grid's spline space",
        assumptions=["Eigen's Householder QR is external: the implementation's second derivatives are certified by their exact residual (tolerance 1e-8 relative)",
                     "IEEE rounding not modelled; comparisons with tolerance 1e-8; Akima's degenerate-slope test (1e-15) is modelled as exact equality and such cases are not compared",
                     "csg_resample is run in interpolation mode (linear, natural cubic, Akima with natural and periodic end slopes) on the input grid, finer, coarser, offset and wider grids with the derivative table; its fit mode (--fitgrid) is run on data sampled from natural cubic splines on the fit grid (with and without points outside the fit grid, which are cut off) and has to reproduce them; the periodic cubic boundary is not run; output rows that meet the first input abscissa only up to rounding are not judged for flags; the least-squares optimality of Fit is the KKT theorem of C06"],
        trivial_tags=("resample-akima-degenerate-skipped",))
