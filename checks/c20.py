"""C20 — units and constants: the tables are regenerated from the working tree by tools/translate/tr_c20.py, the Lean
obligations (decide over the whole finite table + generic algebra) are re-checked, and the translation is validated
by evaluating UnitConverter / tools::conv / Elements in the real code for every pair, constant and element."""
import os, sys
import vlib, vbuild
sys.path.insert(0, os.path.join(vlib.VERIF, "tools", "translate"))
import tr_c20 as tr

PROP = "C20"
PLACES = os.path.join(vlib.VERIF, "harness", "c20p.cc")
HARNESS = os.path.join(vlib.VERIF, "harness", "c20.cc")
GEN_INC = os.path.join(vlib.VERIF, ".cache", "gen")


def build(translate=True):
    if translate:
        tr.translate()
    if "-I" + GEN_INC not in vbuild.INCLUDES:
        vbuild.INCLUDES.append("-I" + GEN_INC)
    return vbuild.build_exe("c20", [HARNESS], ["tools"])


def run(tier, seed, replay=None):
    ck = vlib.Check(PROP, tier, seed)
    tr_err = None
    try:
        info = tr.translate()
        ck.extra["translator"] = info
    except Exception as e:
        tr_err = "translator could not read the source: %r" % (e,)
    ob = vlib.lean_obligations(PROP, thorough=(tier == "thorough"))
    if tr_err:
        ob["ok"] = False
        ob["failures"].append(tr_err)
    try:
        exe = build(translate=False)     # the translator has written the enumerator include (also when a table could not be translated)
        rc, out, err = vlib.run_harness(exe, [])
        if rc != 0:
            ck.aborts.append({"what": "harness exited %d: %s" % (rc, err[-300:]), "lines": []})
        if ob.get("driver_ok", True):
            ck.feed("all pairs, constants, elements", out)
        else:
            ck.notes.append("driver does not build (generated tables broken); correspondence not run")
    except vbuild.BuildError as e:
        ob["ok"] = False
        ob["failures"].append("correspondence harness does not compile against the current source: " + str(e)[-400:])
    except Exception as e:
        ob["ok"] = False
        ob["failures"].append("harness could not be generated: %r" % (e,))
    # the other places of the library that encode a conversion: reader / writer code paths observed on real files
    try:
        pexe = vbuild.build_exe("c20p", [PLACES], ["tools", "csg"], flavour="ndebug")
        tmp = os.path.join(vlib.VERIF, ".cache", "tmp")
        os.makedirs(tmp, exist_ok=True)
        rc, out, err = vlib.run_harness(pexe, [], env={"VERIF_TMP": tmp})
        if rc != 0:
            ck.aborts.append({"what": "places harness exited %d: %s" % (rc, err[-300:]), "lines": []})
        if ob.get("driver_ok", True):
            ck.feed("reader / writer code paths", b"\n".join(l for l in out.splitlines() if l.startswith(b"C20 ")) + b"\n")
    except vbuild.BuildError as e:
        ob["ok"] = False
        ob["failures"].append("places harness does not compile against the current source: " + str(e)[-400:])
    return ck.finish(
        ob,
        rule="mass probes away from the tabulated masses (outside the table, in the gaps; tolerances 0.01 and 0.6) judged against the generated mass table. exhaustive: every ordered pair of units of every dimension, every tools::conv constant, every element symbol of "
             "the real code, compared with the regenerated tables (rel 1e-13) and judged against SI/CODATA 2018, the quotient of base "
             "conversions and the cross-place list; other places: the factor applied by each reader / writer code path (LAMMPS dump reader with x y z, xu yu zu and "
             "xs ys zs columns, box, velocity, force; LAMMPS dump writer; LAMMPS data reader; XYZ and PDB readers and writers) observed on files with known "
             "values; distinct = distinct protocol lines, all non-trivial",
        assumptions=["CODATA 2018 / SI / IUPAC reference values in lean/Votca/Model/C20.lean were typed in by hand",
                     "translator tools/translate/tr_c20.py (regex over the preprocessed text; validated by the correspondence run)",
                     "'four significant digits' is read as relative difference <= 5e-4; element masses 0.5 %"],
        exhaustive=True)
