"""C20 — units and constants: the tables are regenerated from the working tree by tools/translate/tr_c20.py, the Lean
obligations (decide over the whole finite table + generic algebra) are re-checked, and the translation is validated
by evaluating UnitConverter / tools::conv / Elements in the real code for every pair, constant and element."""
import os, sys
import vlib, vbuild
sys.path.insert(0, os.path.join(vlib.VERIF, "tools", "translate"))
import tr_c20 as tr

PROP = "C20"
HARNESS = os.path.join(vlib.VERIF, "harness", "c20.cc")
GEN_INC = os.path.join(vlib.VERIF, ".cache", "gen")


def build(translate=True):
    if translate:
        tr.translate()
    if "-I" + GEN_INC not in vbuild.INCLUDES:
        vbuild.INCLUDES.append("-I" + GEN_INC)
    return vbuild.build_exe("c20", [HARNESS], ["tools"])


def run(tier, seed, replay=None):
    ck = vlib.Check(PROP, tier, seed)
    tr_err = None
    try:
        info = tr.translate()
        ck.extra["translator"] = info
    except Exception as e:
        tr_err = "translator could not read the source: %r" % (e,)
    ob = vlib.lean_obligations(PROP, thorough=(tier == "thorough"))
    if tr_err:
        ob["ok"] = False
        ob["failures"].append(tr_err)
    try:
        exe = build(translate=False)     # the translator has written the enumerator include (also when a table could not be translated)
        rc, out, err = vlib.run_harness(exe, [])
        if rc != 0:
            ck.aborts.append({"what": "harness exited %d: %s" % (rc, err[-300:]), "lines": []})
        if ob.get("driver_ok", True):
            ck.feed("all pairs, constants, elements", out)
        else:
            ck.notes.append("driver does not build (generated tables broken); correspondence not run")
    except vbuild.BuildError as e:
        ob["ok"] = False
        ob["failures"].append("correspondence harness does not compile against the current source: " + str(e)[-400:])
    except Exception as e:
        ob["ok"] = False
        ob["failures"].append("harness could not be generated: %r" % (e,))
    return ck.finish(
        ob,
        rule="exhaustive: every ordered pair of units of every dimension, every tools::conv constant, every element symbol of "
             "the real code, compared with the regenerated tables (rel 1e-13) and judged against SI/CODATA 2018, the quotient of base "
             "conversions and the cross-place list; distinct = distinct protocol lines, all non-trivial",
        assumptions=["CODATA 2018 / SI / IUPAC reference values in lean/Votca/Model/C20.lean were typed in by hand",
                     "translator tools/translate/tr_c20.py (regex over the preprocessed text; validated by the correspondence run)",
                     "'four significant digits' is read as relative difference <= 5e-4; element masses 0.5 %"],
        exhaustive=True)
