"""C19 — table scripts: Lean theorems about list models of update_ibi_pot, dist_boltzmann_invert, table_linearop, table_scale, potential_shift,
table_smooth, table_integrate, table_combine and table_extrapolate (point-wise formulas, carry with flag `o`, grid and flags kept, trapezoid step, zero point of the
shift) + correspondence: the REAL Perl scripts run on generated tables, every output row compared."""
import glob, os, re, sys
import vlib, vbuild

PROP = "C19"
PYH = os.path.join(vlib.VERIF, "harness", "c19.py")


def build():
    return None


def run(tier, seed, replay=None):
    ck = vlib.Check(PROP, tier, seed)
    ob = vlib.lean_obligations(PROP, thorough=(tier == "thorough"))
    if not ob.get("driver_ok", True):
        return ck.finish(ob, rule="potential_shift: one table in three is an already shifted one or holds whole numbers written without a decimal point. -")
    py = sys.executable

    def ids(text, name):
        got = sorted(set(re.findall(r"C19 \w+ (\d+:\d+)", text)))
        if got:
            rc, out, err = vlib.run_harness(py, [PYH, "ids"], stdin=" ".join("C19 x " + g for g in got).encode())
            ck.feed(name, out)

    if replay:
        ids(open(replay).read(), "replay")
        return ck.finish(ob, rule="replay of " + replay)
    corpus = "".join(open(f).read() for f in sorted(glob.glob(os.path.join(vlib.VERIF, "corpus", PROP, "*.txt"))))
    ids(corpus, "corpus")

    def go(n, sd):
        rc, out, err = vlib.run_harness(py, [PYH, "rand", str(n)], env={"VERIF_SEED": str(sd)})
        if rc != 0:
            ck.aborts.append({"what": "harness exited %d: %s" % (rc, err[-300:]), "lines": []})
        ck.feed("random(n=%d)" % n, out)
    go(1500 if tier == "quick" else 40000, seed)
    if ((not ob["ok"]) or ck.disagree) and not ck.propfail and tier == "quick":
        ck.notes.append("obligation or correspondence broken: widened search")
        go(8000, seed + 1000)
    return ck.finish(
        ob,
        rule="tables of 3..60 rows on uniform grids with random flags (i/o/u); RDF pairs with zeros, values below the 1e-10 threshold and coinciding points, "
             "potential flags u; Boltzmann inversion for non-bonded / bond / angle / dihedral with undefined regions at both ends (incl. the inputs on which the "
             "script dies); a·y+b with and without --withflag; scaling; shifting per interaction type; smoothing (random and straight-line data); integration from "
             "left and right; combination with + - x d and a scale; extrapolation (constant / linear / quadratic / sasha / periodic / exponential, left / right / both, "
             "--avgpoints 1..5, --curvature, --no-flagupdate; out-of-range runs of 0..4 points at either end, an out-of-range point inside)",
        assumptions=["Perl's floating point and number formatting are not modelled: rows compared with relative tolerance 1e-11",
                     "logarithms are computed by the harness (python math.log) and handed to the model as witnesses; the exponential of the exponential extrapolation is a rational Taylor approximation in the driver (rows compared to 1e-9 there)",
                     "csg_call / csg_table wrappers and the differentiation through csg_resample are not run (the latter is C12's spline derivative)"],
        trivial_tags=())
