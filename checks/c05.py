"""C05 — threaded analysis: Lean theorems for every worker count, file length, budget and schedule (reads and merges in order, reader and
merge mutual exclusion, no deadlock, bounded number of steps, final state = selected frames in file order, thread-count independence) about a
transition-system model that is replayed against the REAL CsgApplication driven by a controlled scheduler through the VOTCA_VERIF hooks."""
import glob, os, re, sys
import vlib, vbuild

PROP = "C05"
HARNESS = os.path.join(vlib.VERIF, "harness", "c05.cc")


EXE_HARNESS = os.path.join(vlib.VERIF, "harness", "c05e.py")


def build():
    return vbuild.build_exe("c05", [HARNESS], ["tools", "csg"])


def build_stat():
    R = vbuild.REPO
    return vbuild.build_exe("csg_stat", [R + "/csg/src/tools/csg_stat.cc", R + "/csg/src/tools/csg_stat_imc.cc"], ["tools", "csg"])


def run(tier, seed, replay=None):
    ck = vlib.Check(PROP, tier, seed)
    ob = vlib.lean_obligations(PROP, thorough=(tier == "thorough"))
    try:
        exe = build()
    except vbuild.BuildError as e:
        ob["ok"] = False
        ob["failures"].append("correspondence harness does not compile against the current source: " + str(e)[-400:])
        return ck.finish(ob, rule="-")
    if not ob.get("driver_ok", True):
        return ck.finish(ob, rule="-")
    if replay:
        data = open(replay, "rb").read()
        rc, out, err = vlib.run_harness(exe, ["replay"], stdin=data)
        ck.feed("replay", out)
        if re.search(rb"C05 enrun \d+:\d+", data):
            rc, out, err = vlib.run_harness(sys.executable, [EXE_HARNESS, build_stat(), "ids"], stdin=data)
            ck.feed("replay (csg_stat)", out)
        return ck.finish(ob, rule="replay of " + replay)
    corpus = b"".join(open(f, "rb").read() for f in sorted(glob.glob(os.path.join(vlib.VERIF, "corpus", PROP, "*.txt"))))
    if corpus:
        rc, out, err = vlib.run_harness(exe, ["replay"], stdin=corpus)
        ck.feed("corpus", out)

    def go(nexh, nr, sd):
        for mode, arg in (("exh", nexh), ("rand", nr)):
            try:
                rc, out, err = vlib.run_harness(exe, [mode, arg], env={"VERIF_SEED": str(sd)}, timeout=1200)
            except Exception as e:
                out = getattr(e, "stdout", None) or b""
                rc, err = 124, "harness did not finish (livelock or real deadlock outside the scheduler's view)"
            if rc not in (0, 3):
                ck.aborts.append({"what": "%s: harness exited %d: %s" % (mode, rc, err[-300:]), "lines": [out.split(b"\n")[-1].decode(errors="replace")[:2000]]})
            ck.feed("schedules:%s(%d)" % (mode, arg), out)
    go(300 if tier == "quick" else 20000, 1500 if tier == "quick" else 60000, seed)

    # executable leg: the real csg_stat, --nt 1 against --nt k, byte for byte
    def go_exe(n, sd):
        try:
            stat = build_stat()
        except vbuild.BuildError as e:
            ob["ok"] = False
            ob["failures"].append("csg_stat does not compile from the current source: " + str(e)[-400:])
            return
        rc, out, err = vlib.run_harness(sys.executable, [EXE_HARNESS, stat, "rand", str(n)], env={"VERIF_SEED": str(sd)}, timeout=3000)
        if rc != 0:
            ck.aborts.append({"what": "csg_stat harness exited %d: %s" % (rc, err[-300:]), "lines": []})
        ck.feed("csg_stat --nt 1 vs --nt k (n=%d)" % n, out)
    go_exe(60 if tier == "quick" else 1500, seed)
    if ((not ob["ok"]) or ck.disagree) and not ck.propfail and tier == "quick":
        ck.notes.append("obligation or correspondence broken: widened search")
        go(3000, 10000, seed + 1000)
        go_exe(300, seed + 1000)
    return ck.finish(
        ob,
        rule="each case = one complete run of the real CsgApplication (stub topology/trajectory reader, cheap evaluation) under one schedule chosen by "
             "the harness scheduler at every lock / unlock / begin / end / join point. exh: depth-first enumeration of schedules for 2 workers, 1..3 "
             "frames, budgets none/1/2, ordered and unordered (first N schedules per configuration); rand: 1..8 workers, 1..20 frames, --nframes, "
             "--first-frame, random choice at every decision. the event trace (locks with mutex roles, reads, evaluations, merges) is replayed on the "
             "model step by step; clauses are judged on the trace itself. distinct = distinct traces. executable leg: the real csg_stat on complete generated inputs "
             "(the C04 generator: 1-6 different frames, pair / three-body / bonded interactions, IMC, block output, frame selections) run with --nt 1 and with "
             "--nt 2..8; every written file compared byte for byte. two families: mapped (--cg, bonded terms and exclusions from the mapping files) and direct "
             "(no mapping: the xml topology itself declares bonds / angles / dihedrals, so every worker's own topology supplies interactions and exclusions)",
        assumptions=["the scheduler serialises threads at the hook points only: data races inside EvalConfiguration and memory-model effects are not explored",
                     "pthread mutexes unlocked by another thread than the locker are modelled as binary semaphores",
                     "the unordered mode has no theorem (its budget clause is a recorded finding); its traces are judged by the trace predicates only",
                     "the executable leg runs under the operating system's scheduler: it samples whatever interleavings occur (the controlled-scheduler leg is the one that enumerates them)"],
        trivial_tags=())
